"""Per-property plans: which design check, which generated and random cases, which trace specification."""
import json, os, re, time, collections, shutil
import vlib, fam_codec
from vlib import Broken, log


class Ctx:
    def __init__(self, prop, tier, seed, work):
        self.prop, self.tier, self.seed, self.work = prop, tier, seed, work
        self.t0 = time.time()
        self.quick = tier == "quick"
        self.known = vlib.load_known()
        self.open = vlib.open_ids(self.known)
        self.pvh = None
        self.env = None
        self.case_files = []
        self.judge_module = None
        self.states = 0
        self.transitions = 0

    def build(self):
        if not self.pvh:
            self.pvh = vlib.build_harness(self.work)
            self.env = vlib.typesdb(self.pvh, self.work)
        return self.pvh

    def add_mc(self, st):
        self.states += st["distinct"]
        self.transitions += st["generated"]


def reason_class(r):
    return re.sub(r"[0-9]+", "#", r.split("@")[0])


CRASHY = ("fatal", "timeout", "oom", "crash-")


def same_class(got, want):
    """A run that dies (fault, memory limit, time limit) may die differently when it is repeated alone: one crash class confirms another."""
    return got == want or want.endswith(":" + got) or (got.startswith(CRASHY) and want.startswith(CRASHY))      # plans prefix a label to some verdicts


def find_case(ctx, cid):
    for p in ctx.case_files:
        for line in open(p):
            if '"id": %d,' % cid in line or '"id":%d,' % cid in line or line.rstrip().endswith('"id": %d}' % cid) or line.rstrip().endswith('"id":%d}' % cid):
                if json.loads(line).get("id") == cid:
                    return line
    return None


BUILD_KW = {"extra_consts": '  PublishMode = "pending"\n'}      # TraceBuild validates against the repaired publication protocol


def judge_file(ctx, module, cases_path, tag, budget="10s", workers=None, pvh=None):
    trace = fam_codec.run_cases(pvh or ctx.pvh, cases_path, ctx.work, tag, budget=budget, workers=workers)
    kw = BUILD_KW if module == "TraceBuild" else (getattr(ctx, "judge_kw", {}) if module == getattr(ctx, "judge_kw_module", module) else {})
    verdicts, st = vlib.judge(ctx.work, module, trace, ctx.env, ctx.open, tag=tag + module[-5:], **kw)
    return trace, verdicts, st


def session_prefix(ctx, cid, line):
    """A case that ran in a session (shared instance) is replayed with the cases that preceded it there."""
    c = json.loads(line)
    if "sess" not in c:
        return line
    out = []
    for p in ctx.case_files:
        lines = open(p).readlines()
        if not any(json.loads(l).get("id") == cid for l in lines if ('"id": %d' % cid) in l or ('"id":%d' % cid) in l):
            continue        # sessions are numbered per case file
        for l in lines:
            if '"sess"' in l:
                d = json.loads(l)
                if d.get("sess") == c["sess"] and d["id"] <= cid and (d["id"] - cid) > -1000:
                    out.append(l)
    return "".join(out)


def confirm(ctx, module, cid, want_class):
    """Re-runs one case (with its session history, if any) in a fresh process; the rejection must reappear."""
    line = find_case(ctx, cid)
    alias = None
    if line is not None and json.loads(line).get("ev") == "codec" and module != "TraceCodec":
        module, alias = "TraceCodec", ("C11" if ctx.prop == "C11" else "C01")        # history-independence cases of C10 are ordinary round trips
    if line is not None and json.loads(line).get("ev") == "sched" and ctx.prop == "C11":
        module, alias = "TraceSched", "C11"
    if getattr(ctx, "relabel", None):
        alias = "sys"
    if ctx.prop == "C16":                          # C16 is judged through the round-trip / wire / descriptor verdicts of its cases
        ev = json.loads(line).get("ev")
        module, alias = ("TraceCodec", "any") if ev == "codec" else ("TraceDecode", "C03")
    if line is None:
        raise Broken("case %d not found for confirmation" % cid)
    if want_class.startswith("hook-trace"):
        module = "TraceBuild"
    if want_class.startswith("intern-trace"):
        module = "TraceIntern"
    if want_class.startswith("pool-trace"):
        module = "TraceKeyPool"
    rd = os.path.join(vlib.ROOT, "replays", ctx.prop)
    if os.environ.get("VERIF_REPO"):      # development runs against a scratch copy keep their replays apart
        rd = os.path.join(vlib.ROOT, "replays", "_scratch", "%s-%d" % (ctx.prop, os.getpid()))
    os.makedirs(rd, exist_ok=True)
    rp = os.path.join(rd, "%s-%d.ndjson" % (ctx.tier, cid))
    open(rp, "w").write(session_prefix(ctx, cid, line))
    if os.environ.get("PVH_CAT") and json.loads(line).get("ev") == "hist":
        shutil.copy(os.environ["PVH_CAT"], rp + ".cat.json")      # histories refer to catalogue items by number: the replay carries its catalogue
    for attempt in range(3):
        pvh = getattr(ctx, "racebin", None) if cid >= 7000000 else None      # executions observed by the race detector are confirmed by it
        _, verdicts, _ = judge_file(ctx, module, rp, "confirm%d_%d" % (cid, attempt), budget="300s" if pvh else "30s", workers=1, pvh=pvh)
        for (i, prop, reason) in verdicts:
            if alias and i == cid and (prop == alias or (alias == "any" and prop in ("C01", "C02", "C05", "C13")) or (alias == "sys" and prop in ("C06", "C10", "C11"))) and not reason.startswith("known:"):
                return rp
            if i == cid and prop == ctx.prop and not reason.startswith("known:") and same_class(reason_class(reason), want_class):
                return rp
    return None


def finish(ctx, module, verdicts, traces, judge_stats, rule, assumptions, extra=None, max_confirm=4):
    mine = [(i, r) for (i, p, r) in verdicts if p == ctx.prop]
    known_seen = collections.Counter(r[len("known:"):] for (i, r) in mine if r.startswith("known:"))
    viol = [(i, r) for (i, r) in mine if not r.startswith("known:")]
    classes = collections.defaultdict(list)
    for i, r in viol:
        classes[reason_class(r)].append((i, r))
    confirmed, unconfirmed = [], []
    for cls, items in sorted(classes.items()):
        ok = False
        for (i, r) in items[:max_confirm]:
            rp = confirm(ctx, module, i, cls)
            if rp:
                confirmed.append((i, r, rp))
                ok = True
                break
        if not ok:
            unconfirmed.append((cls, items[0]))
    n, distinct, samples = fam_codec.nontrivial_stats(traces)
    cov = {
        "states": ctx.states + judge_stats.get("distinct", 0),
        "transitions": ctx.transitions + judge_stats.get("generated", 0),
        "traces_validated_against_impl": judge_stats.get("events", 0),
        "evaluations": n,
        "distinct_nontrivial": distinct,
        "rule": rule,
        "samples": samples or [{"note": "no sample small enough to print"}],
        "design_check_states": ctx.states,
        "rejections_by_class": {k: len(v) for k, v in classes.items()},
        "known_findings_observed": dict(known_seen),
        "confirmed_violations": [{"id": i, "reason": r, "replay": rp} for (i, r, rp) in confirmed],
    }
    if extra:
        cov.update(extra)
    vlib.write_evidence(ctx.prop, ctx.tier, ctx.seed, cov, time.time() - ctx.t0, len(confirmed), assumptions)
    kf = {k["id"]: k for k in ctx.known}
    for fid, cnt in sorted(known_seen.items()):
        print("KNOWN-FINDING: property=%s %s %s (%d events)" % (ctx.prop, fid, kf.get(fid, {}).get("what", ""), cnt), flush=True)
    if unconfirmed and not confirmed:
        raise Broken("rejections that did not reproduce in a solo re-run: %s" % unconfirmed[:3])
    for (i, r, rp) in confirmed:
        print("VIOLATION property=%s replay=%s reason=%s case=%d" % (ctx.prop, rp, r, i), flush=True)
    return 1 if confirmed else 0


EVMOD = {"codec": "TraceCodec", "evolve": "TraceDecode", "hist": "TraceSystem", "hostile": "TraceHostile", "prim": "TracePrim",
         "typedef": "TraceTypes", "jsonout": "TraceJSONOut", "tag": "TraceTag", "sched": "TraceSched", "stress": "TraceSched"}
# which verdicts of the judging module count for the property being replayed (several checks judge their cases through other properties' oracles)
COUNTS_AS = {"C16": {"C01", "C02", "C05", "C13", "C03"}, "C17": {"C06", "C10", "C11"}, "C19": {"C06", "C10", "C11"}, "C10": {"C10", "C01"}}


def replay(ctx, path):
    """Re-executes a replay file (the last line is the case, lines before it its session history) and judges it again."""
    ctx.build()
    lines = [l for l in open(path) if l.strip()]
    if not lines:
        raise Broken("empty replay file")
    last = json.loads(lines[-1])
    module = EVMOD.get(last.get("ev"), MODULES[ctx.prop])
    ctx.case_files = [path]
    if os.path.exists(path + ".cat.json"):
        cat = json.load(open(path + ".cat.json"))
        os.environ["PVH_CAT"] = os.path.abspath(path + ".cat.json")
        ctx.judge_kw = dict(extra_consts='  CatFile = "%s"\n  Cat <- CatLit\n  Bufs = {"b1", "b2"}\n  MaxSteps = 100\n  GenIdx <- AllIdx\n' % os.environ["PVH_CAT"],
                            defs="CatLit == " + vlib.tla_literal(cat))
        ctx.judge_kw_module = "TraceSystem"
    elif module == "TraceSystem":
        raise Broken("a history replay needs its catalogue next to it (<replay>.cat.json)")
    pvh = getattr(ctx, "racebin", None)
    trace, verdicts, st = judge_file(ctx, module, path, "replay", budget="30s", workers=1)
    if module == "TraceSched":
        verdicts += judge_file(ctx, "TraceBuild", path, "replayb", budget="30s", workers=1)[1]
        verdicts += judge_file(ctx, "TraceIntern", path, "replayi", budget="30s", workers=1)[1]
        verdicts += judge_file(ctx, "TraceKeyPool", path, "replayk", budget="30s", workers=1)[1]
    counts = COUNTS_AS.get(ctx.prop, {ctx.prop})
    rc = 0
    for (i, p, r) in verdicts:
        print("verdict case=%d property=%s %s" % (i, p, r))
        if i == last.get("id") and p in counts and not r.startswith("known:"):
            print("VIOLATION property=%s replay=%s reason=%s case=%d" % (ctx.prop, path, r, i))
            rc = 1
    if not verdicts:
        print("all events accepted")
    return rc


# ---------------------------------------------------------------------------------------------
CODEC_ASSUME = [
    "the harness's reflect builder / projector maps abstract values to Go values faithfully (format-agnostic code, exercised by every accepted case)",
    "TLC evaluates the specification correctly; the model's numbers are base-128 limb sequences because TLC integers are 32-bit",
    "scope: top-level type is not a pointer / null type; in ProtoCompatibleArrays mode the top level is a struct (wrapper.go)",
]


def shape_cases():
    """Hand-written type shapes that neither the enumerated universe nor the random generator reaches reliably (each found by a seeded change):
    pointer-shaped values below the top level (what Go stores directly in an interface word: Marshal by value gets the pointer itself), and one
    slice type used with and without the proto tag in one struct (both orders), so that a codec cached for one position can be met at the other."""
    I = lambda n: {"neg": n < 0, "mag": ([abs(n)] if abs(n) < 128 and n != 0 else ([] if n == 0 else [abs(n) % 128, abs(n) // 128]))}
    S = lambda s: list(s.encode())
    fd = lambda name, i, t, opt="": {"i": i, "n": name, "gn": name, "enc": True, "opt": opt, "tag": "", "t": t}
    st = lambda fs: {"k": "struct", "name": "", "f": fs}
    INT, STR = {"k": "int", "w": 64, "g": "int"}, {"k": "string"}
    ptr = lambda t: {"k": "ptr", "e": t}
    nilp, P = {"nil": True, "v": []}, (lambda v: {"nil": False, "v": v})
    sl = lambda es: {"nil": es is None, "e": es or []}
    out = []
    T1 = st([fd("L", 1, st([fd("P", 1, ptr(INT))]))])
    for v in (nilp, P(I(0)), P(I(7))):
        out.append((T1, [[v]]))
    T2 = st([fd("L", 1, st([fd("M", 1, {"k": "map", "key": STR, "val": INT})]))])
    for v in ({"nil": True, "m": []}, {"nil": False, "m": []}, {"nil": False, "m": [[S("k"), I(1)]]}):
        out.append((T2, [[v]]))
    T3 = st([fd("A", 1, st([fd("B", 1, st([fd("P", 1, ptr(STR))]))]))])
    for v in (nilp, P(S("")), P(S("xy"))):
        out.append((T3, [[[v]]]))
    SS = {"k": "slice", "e": STR}
    for (a, b) in (("", "proto"), ("proto", "")):
        T4 = st([fd("A", 1, SS, a), fd("B", 2, SS, b), fd("Z", 3, INT)])
        for v in ([sl(None), sl(None), I(0)], [sl([S("x"), S("")]), sl([S("y"), S("zz")]), I(5)]):
            out.append((T4, v))
    # deep nesting (20 levels of structs, a slice of structs every fourth level): the descriptor walk and the JSON indentation grow with it
    T5, v5 = INT, I(9)
    for lvl in range(20):
        if lvl % 4 == 3:
            T5, v5 = st([fd("E", 1, {"k": "slice", "e": T5})]), [sl([v5])]
        else:
            T5, v5 = st([fd("N", 1, T5), fd("K", 2, INT)]), [v5, I(lvl)]
    out.append((T5, v5))
    cases = []
    for cfgname in ("default", "pt", "pa", "both"):
        for (T, v) in out:
            cases.append({"ev": "codec", "T": T, "v": v, "cfgname": cfgname, "u": ["shape"]})
    return cases


def codec_family(ctx, n_quick, n_thorough, mc_cfgs_quick=("default",), extra_cov=None, rnd_cfg="mix"):
    ctx.build()
    cfgs = list(mc_cfgs_quick) if ctx.quick else ["default", "pt", "pa", "both"]
    if ctx.quick:
        cases, st = fam_codec.mc_codec(ctx.work, cfgs, True, sweep="SweepQuick")
        ctx.add_mc(st)
    else:       # the long length sweep in the default configuration, the boundary sweep in the other three
        cases, st = fam_codec.mc_codec(ctx.work, ["default"], True, sweep="SweepThorough")
        ctx.add_mc(st)
        c2, st2 = fam_codec.mc_codec(ctx.work, ["pt", "pa", "both"], True, sweep="SweepQuick")
        ctx.add_mc(st2)
        cases += c2
        st = {"distinct": st["distinct"] + st2["distinct"]}
    log("design check MCCodec: %d states, %d cases emitted" % (st["distinct"], len(cases)))
    cases += shape_cases()
    p1 = os.path.join(ctx.work, "mc_cases.ndjson")
    fam_codec.write_cases(cases, p1, 0)
    p2 = fam_codec.gen_random(ctx.pvh, ctx.work, n_quick if ctx.quick else n_thorough, ctx.seed, cfg=rnd_cfg)
    ctx.case_files = [p1, p2]
    t1 = fam_codec.run_cases(ctx.pvh, p1, ctx.work, "mc")
    t2 = fam_codec.run_cases(ctx.pvh, p2, ctx.work, "rnd")     # sessions of 50 cases share one instance
    trace = os.path.join(ctx.work, "all_trace.ndjson")
    with open(trace, "wb") as f:
        shutil.copyfileobj(open(t1, 'rb'), f)
        shutil.copyfileobj(open(t2, 'rb'), f)
    verdicts, jst = vlib.judge(ctx.work, "TraceCodec", trace, ctx.env, ctx.open, tag="main")
    rule = ("S->C: every case of MCCodec's universe U1 (kind x position x boundary values x container length x configuration %s); "
            "C->S: %d seeded random types (depth<=3, <=5 fields, all kinds/options, named and recursive types) with boundary-biased values. "
            "distinct = distinct (configuration,type,value) triples; non-trivial = the real encoding is non-empty" % (cfgs, n_quick if ctx.quick else n_thorough))
    return finish(ctx, "TraceCodec", verdicts, [trace], jst, rule, CODEC_ASSUME, extra_cov)


def plan_C01(ctx):
    return codec_family(ctx, 6000, 25000)


def plan_C02(ctx):
    return codec_family(ctx, 6000, 25000)


def plan_C05(ctx):
    return codec_family(ctx, 6000, 25000)


def plan_C09(ctx):
    return codec_family(ctx, 6000, 25000)


def plan_C13(ctx):
    return codec_family(ctx, 6000, 25000)


def plan_C16(ctx):
    ctx.build()
    leaves = '{"nil", "z", "es", "f15", "ctl"}' if ctx.quick else '{"nil", "t", "z", "m1", "es", "a", "f15", "n0", "ctl"}'
    cases, st = fam_codec.mc_generic(ctx.work, "MCJsonAny", "  Env <- MCEnv\n  Leaves = %s\n  Depth = 2\n  Emit = TRUE\n" % leaves,
                                     "RoundTrip Skippable MatcherSound", timeout=3000)
    ctx.add_mc(st)
    if not ctx.quick:   # every leaf (incl. the big int, false, "0" as json.Number) at depth 1
        c2, st2 = fam_codec.mc_generic(ctx.work, "MCJsonAny", '  Env <- MCEnv\n  Leaves = {"nil", "t", "f", "z", "m1", "big", "f0", "f15", "es", "a", "n0"}\n  Depth = 1\n  Emit = TRUE\n',
                                       "RoundTrip Skippable MatcherSound")
        ctx.add_mc(st2)
        cases += c2
    # length boundaries (127 / 128 and, thorough, 16383 / 16384 encoded bytes) inside nested containers
    def jstr(n):
        return {"k": "str", "b": [120] * n}
    def jarr(es):
        return {"k": "arr", "nil": False, "e": es}
    def jobj(ms):
        return {"k": "obj", "nil": False, "m": ms}
    sweep = list(range(100, 141)) + ([] if ctx.quick else list(range(16365, 16390)))
    holder = [c for c in cases if c["ev"] == "codec" and c["T"]["k"] == "struct"][0]
    skipped = [c for c in cases if c["ev"] == "evolve"][0]
    def lacking_for(x):
        return skipped["S2"]
    for n in sweep:
        for x in (jarr([jarr([jstr(n), jstr(1)]), jstr(2)]), jobj([[[111], jobj([[[107, 107], jstr(n)]])], [[112], jstr(3)]]),
                  jarr([jobj([[[], jarr([jstr(n)])]])])):
            cases.append({"ev": "codec", "T": {"k": "jsonarr" if x["k"] == "arr" else "jsonobj"}, "v": x, "u": ["len-top"]})
            hv = list(holder["v"])
            ht = json.loads(json.dumps(holder["T"]))
            ht["f"][1]["t"] = {"k": "jsonarr" if x["k"] == "arr" else "jsonobj"}
            hv[1] = x
            cases.append({"ev": "codec", "T": ht, "v": hv, "u": ["len-field"]})
            # ... and the same holder read by a struct that lacks the field: the reader has to skip it
            cases.append({"ev": "evolve", "S": ht, "S2": lacking_for(x), "v": hv, "prior": skipped["prior"], "u": ["len-skipped"]})
    # entry counts around 127 / 128 (two-byte counts), at top level, as a field and skipped
    for n in ([126, 127, 128, 129, 130] if ctx.quick else list(range(120, 136)) + [255, 256, 257]):
        for x in (jarr([jstr(1)] * n), jobj([[[97 + (j // 26) % 26, 97 + j % 26, 48 + j // 676], {"k": "int", "i": {"neg": False, "mag": [j % 128] if j % 128 else []}}] for j in range(n)])):
            hv = list(holder["v"])
            ht = json.loads(json.dumps(holder["T"]))
            ht["f"][1]["t"] = {"k": "jsonarr" if x["k"] == "arr" else "jsonobj"}
            hv[1] = x
            cases.append({"ev": "codec", "T": ht, "v": hv, "u": ["count-field"]})
            cases.append({"ev": "evolve", "S": ht, "S2": lacking_for(x), "v": hv, "prior": skipped["prior"], "u": ["count-skipped"]})
    log("design check MCJsonAny: %d states, %d cases" % (ctx.states, len(cases)))
    for c in cases:
        c["cfg"] = fam_codec.CFGS["jsonany"]
    cod = [c for c in cases if c["ev"] == "codec"]
    evo = [c for c in cases if c["ev"] == "evolve" and not c["u"][0].startswith("re")]      # decoding into re-used JSON containers is C10's
    p1 = os.path.join(ctx.work, "codec_cases.ndjson")
    p2 = os.path.join(ctx.work, "evolve_cases.ndjson")
    fam_codec.write_cases(cod, p1, 0)
    fam_codec.write_cases(evo, p2, 5000000)
    ctx.case_files = [p1, p2]
    t1 = fam_codec.run_cases(ctx.pvh, p1, ctx.work, "cod")
    t2 = fam_codec.run_cases(ctx.pvh, p2, ctx.work, "evo")
    v1, j1 = vlib.judge(ctx.work, "TraceCodec", t1, ctx.env, ctx.open, tag="cj")
    v2, j2 = vlib.judge(ctx.work, "TraceDecode", t2, ctx.env, ctx.open, tag="ej")
    verdicts = [(i, "C16", p + ":" + r) for (i, p, r) in v1 if p in ("C01", "C02", "C05", "C13")] + [(i, "C16", "skipped-field:" + r) for (i, p, r) in v2 if p == "C03"]
    jst = {k: j1.get(k, 0) + j2.get(k, 0) for k in ("events", "generated", "distinct")}
    rule = ("every JSON-model tree of depth <= 2, width <= 2 over the leaves %s with nil and empty containers and the keys '' and 'a', each at top level, as a "
            "struct field between two other fields and as an unknown field skipped by a reader lacking it; the descriptor-driven JSON rendering of each is "
            "compared with the tree. distinct = distinct (tree, position); non-trivial = the encoding is non-empty" % leaves)
    return finish(ctx, "TraceCodec", verdicts, [t1, t2], jst, rule, CODEC_ASSUME + ["nil and empty containers are interchangeable (compared after normalising)"])


def plan_C14(ctx):
    return codec_family(ctx, 6000, 25000)


def decode_family(ctx, kinds, n_quick, n_thorough, with_codec_sessions=False):
    """C03 / C10: "evolve" events (MCEvolve's universe + random derived types / pre-populated targets) judged by TraceDecode."""
    ctx.build()
    nest = '{"top", "nested"}' if ctx.quick else '{"top", "nested", "slice"}'
    cases, st = fam_codec.mc_generic(ctx.work, "MCEvolve", "  Env <- MCEnv\n  Emit = TRUE\n  Nest = %s\n" % nest, "Evolves SkipExact")
    ctx.add_mc(st)
    log("design check MCEvolve: %d states, %d cases" % (st["distinct"], len(cases)))
    for c in cases:
        c["cfg"] = fam_codec.CFGS["default"]
    p1 = os.path.join(ctx.work, "mc_cases.ndjson")
    fam_codec.write_cases(cases, p1, 0)
    ctx.case_files = [p1]
    traces = [fam_codec.run_cases(ctx.pvh, p1, ctx.work, "mc")]
    n = n_quick if ctx.quick else n_thorough
    for j, kind in enumerate(kinds):
        pk = fam_codec.gen_random(ctx.pvh, ctx.work, n, ctx.seed + j, cfg="mix", kind=kind, idbase=(j + 1) * 1000000, tag=kind)
        ctx.case_files.append(pk)
        traces.append(fam_codec.run_cases(ctx.pvh, pk, ctx.work, kind))
    trace = os.path.join(ctx.work, "all_trace.ndjson")
    with open(trace, "wb") as f:
        for t in traces:
            shutil.copyfileobj(open(t, 'rb'), f)
    verdicts, jst = vlib.judge(ctx.work, "TraceDecode", trace, ctx.env, ctx.open, tag="main")
    all_traces = [trace]
    if with_codec_sessions:
        # history independence: ordinary round trips into fresh variables on a long-lived shared instance
        pc = fam_codec.gen_random(ctx.pvh, ctx.work, n, ctx.seed + 7, cfg="mix", kind="codec", idbase=9000000, tag="sess")
        ctx.case_files.append(pc)
        tc = fam_codec.run_cases(ctx.pvh, pc, ctx.work, "sess")
        v2, jst2 = vlib.judge(ctx.work, "TraceCodec", tc, ctx.env, ctx.open, tag="sessj")
        verdicts += [(i, ctx.prop, "fresh-decode-after-history:" + r) for (i, p, r) in v2 if p == "C01"]
        for k in ("events", "generated", "distinct"):
            jst[k] = jst.get(k, 0) + jst2.get(k, 0)
        all_traces.append(tc)
        ctx.codec_ids = 9000000
        # JSON-any containers (registered JSON codecs) decoded into variables that already hold an empty / shorter / longer container
        jc, stj = fam_codec.mc_generic(ctx.work, "MCJsonAny", '  Env <- MCEnv\n  Leaves = {"nil", "z", "es"%s}\n  Depth = 2\n  Emit = TRUE\n' % ("" if ctx.quick else ', "f15", "a"'),
                                       "RoundTrip Skippable MatcherSound", timeout=3000)
        ctx.add_mc(stj)
        jc = [c for c in jc if c["ev"] == "evolve" and c["u"][0].startswith("re")]
        for c in jc:
            c["cfg"] = fam_codec.CFGS["jsonany"]
        pj = os.path.join(ctx.work, "json_reuse_cases.ndjson")
        fam_codec.write_cases(jc, pj, 9500000)
        ctx.case_files.append(pj)
        tj = fam_codec.run_cases(ctx.pvh, pj, ctx.work, "jsonreuse")
        v3, jst3 = vlib.judge(ctx.work, "TraceDecode", tj, ctx.env, ctx.open, tag="jsonreusej")
        verdicts += [(i, p, "json-container-reused:" + r) for (i, p, r) in v3 if p == ctx.prop]
        for k in ("events", "generated", "distinct"):
            jst[k] = jst.get(k, 0) + jst3.get(k, 0)
        all_traces.append(tj)
    rule = ("S->C: MCEvolve's universe (S = 3 fields over one kind per wire type / container form, S' = 6 removal / reorder / addition variants, "
            "zero and non-zero values, pre-populated targets, nesting %s); C->S: %d random cases per kind %s (derived S', targets pre-populated with "
            "longer / shorter slices incl. stale elements beyond len, overlapping map keys, non-nil pointers; sessions of 50 share one instance)."
            " non-trivial = the marshalled bytes are non-empty" % (nest, n, list(kinds)))
    return finish(ctx, "TraceDecode", verdicts, all_traces, jst, rule, CODEC_ASSUME + [
        "whether a re-used slice that ends up empty is nil or empty is left open (compared after normalising empties)"])


CAT_RE = re.compile(r'^<<"CATALOGUE", (".*")>>$')


def c11_extra(ctx):
    """C11 beyond the catalogue histories: (a) on random types, every single Marshal leaves its argument alone (TraceCodec's C11 verdict);
    (b) concurrent decodes through one interning codec, the callers overwriting their input buffers afterwards (TraceSched's C11 verdict)."""
    import random, fam_sched
    n = 3000 if ctx.quick else 30000
    pc = fam_codec.gen_random(ctx.pvh, ctx.work, n, ctx.seed + 11, cfg="mix", kind="codec", idbase=9000000, tag="c11codec")
    ctx.case_files.append(pc)
    tc = fam_codec.run_cases(ctx.pvh, pc, ctx.work, "c11codec")
    v1, st1 = vlib.judge(ctx.work, "TraceCodec", tc, ctx.env, ctx.open, tag="c11codecj")
    verdicts = [(i, "C11", "single-call:" + r) for (i, p, r) in v1 if p == "C11"]
    # JSON-any values (strings, json.Number, nested containers) decoded through the registered JSON codecs
    jc, stj = fam_codec.mc_generic(ctx.work, "MCJsonAny", '  Env <- MCEnv\n  Leaves = {"a", "n0", "f15", "es"}\n  Depth = %d\n  Emit = TRUE\n' % (1 if ctx.quick else 2),
                                   "RoundTrip Skippable MatcherSound")
    ctx.add_mc(stj)
    jc = [c for c in jc if c["ev"] == "codec"]
    for c in jc:
        c["cfg"] = fam_codec.CFGS["jsonany"]
    pj = os.path.join(ctx.work, "c11json_cases.ndjson")
    fam_codec.write_cases(jc, pj, 9500000)
    ctx.case_files.append(pj)
    tj = fam_codec.run_cases(ctx.pvh, pj, ctx.work, "c11json")
    v3, st3 = vlib.judge(ctx.work, "TraceCodec", tj, ctx.env, ctx.open, tag="c11jsonj")
    verdicts += [(i, "C11", "single-call:" + r) for (i, p, r) in v3 if p == "C11"]
    rnd = random.Random(ctx.seed)
    cases = [c for c in fam_sched.cases(ctx.quick, rnd) if c["family"].startswith("intern") or c["family"] == "three-intern"]
    for c in cases:
        c["cfg"] = fam_codec.CFGS["default"]
    ps = os.path.join(ctx.work, "c11sched_cases.ndjson")
    fam_codec.write_cases(cases, ps, 8000000)
    ctx.case_files.append(ps)
    os.environ["PVH_GOMAXPROCS"] = "8"
    ts = fam_codec.run_cases(ctx.pvh, ps, ctx.work, "c11sched", budget="30s")
    v2, st2 = vlib.judge(ctx.work, "TraceSched", ts, ctx.env, ctx.open, tag="c11schedj")
    verdicts += [(i, "C11", "concurrent-decode:" + r) for (i, p, r) in v2 if p == "C11"]
    st = {k: st1.get(k, 0) + st2.get(k, 0) + st3.get(k, 0) for k in ("events", "generated", "distinct")}
    return verdicts, st, [tc, ts, tj], (" + %d random single calls (argument unchanged) + %d scheduled concurrent decodes through one interning codec with the "
                                    "input buffers overwritten afterwards" % (n, len(cases)))


def system_family(ctx, catname="MCCat", quick_idx="QuickIdx", relabel=None, extra_inv="", sweep=True, extra=None):
    """C06 / C11 / C17 / C19: histories generated from PlencSystem (exhaustive short ones + random long ones) replayed and validated by TraceSystem."""
    ctx.build()
    base = "  Env <- MCEnv\n  Cat <- %s\n  GenIdx <- %s\n" % (catname, quick_idx if ctx.quick else quick_idx.replace("Quick", "Thorough"))
    # 1. design check: deeper, fingerprinting only the observable state (VIEW), action properties
    depth = 4 if ctx.quick else 5
    cfg = ("CONSTANTS\n%s  Bufs = {\"b1\"}\n  MaxSteps = %d\n  Emit = FALSE\nSPECIFICATION SysSpec\nVIEW View\n"
           "INVARIANTS FreshIndependent %s\nPROPERTIES AppendOnly FrameVars FrameBufs FrameOther\nCHECK_DEADLOCK FALSE\n" % (base, depth, extra_inv))
    out, st = vlib.tlc(ctx.work, "MCSystem", cfg, workers=vlib.NCPU, timeout=1500, heap="8g")
    if "is violated" in out or "Error:" in out or st["rc"] != 0:
        raise Broken("design check MCSystem failed:\n" + vlib.tlc_brief(out))
    ctx.add_mc(st)
    cat = None
    for line in out.splitlines():
        m = CAT_RE.match(line)
        if m:
            cat = json.loads(json.loads(m.group(1)))
    if cat is None:
        raise Broken("no catalogue emitted by MCSystem")
    nfixed = len(cat)
    # random catalogue items (types without maps, zero value + random value): histories over arbitrary types, not only the hand-picked ones
    if catname == "MCCat":
        pr = fam_codec.gen_random(ctx.pvh, ctx.work, 14 if ctx.quick else 80, ctx.seed + 3, cfg="default", kind="catitem", tag="catitems")
        cat += [json.loads(l) for l in open(pr) if len(l) < 6000]
    elif catname == "MCCat19":        # ... with at least one interned field
        pr = fam_codec.gen_random(ctx.pvh, ctx.work, 150 if ctx.quick else 800, ctx.seed + 3, cfg="default", kind="catitem", tag="catitems")
        more = [json.loads(l) for l in open(pr) if len(l) < 6000 and '"opt":"intern"' in l.replace(" ", "")]
        cat += more[:8 if ctx.quick else 40]
    elif catname == "MCCat17":        # ... used through differently configured instances
        for j, cn in enumerate(("default", "pt", "mk")):
            pr = fam_codec.gen_random(ctx.pvh, ctx.work, 4 if ctx.quick else 20, ctx.seed + 3, cfg=cn, kind="catitem", tag="catitems%d" % j)
            cat += [json.loads(l) for l in open(pr) if len(l) < 6000]
    catp = os.path.join(ctx.work, "cat.json")
    json.dump(cat, open(catp, "w"))
    os.environ["PVH_CAT"] = catp
    # 2. all histories of length 3 on one buffer
    cases, st2 = fam_codec.mc_generic(ctx.work, "MCSystem", base + "  Bufs = {\"b1\"}\n  MaxSteps = 3\n  Emit = TRUE\n", "FreshIndependent",
                                      spec="SysSpec")
    ctx.add_mc(st2)
    # 3. longer random histories on two buffers, drawn by the harness over the same catalogue (code -> spec direction)
    nsim = 4000 if ctx.quick else 20000
    log("MCSystem: design %d states; %d exhaustive histories; %d random histories" % (st["distinct"], len(cases), nsim))
    sim = []
    # 4. capacity sweep: every spare capacity 0..460 x prefix {0, 3 bytes} for every item, then a second marshal into the grown buffer
    for i in (range(1, nfixed + 1) if sweep else []):
        for pre in ([], [1, 2, 3]):
            for spare in (range(0, 461) if i >= 12 or not ctx.quick else list(range(0, 40)) + [63, 64, 65, 127, 128, 129]):
                sim.append({"ev": "hist", "steps": [
                    {"act": "newbuf", "b": "b1", "pre": pre, "spare": spare, "i": 0, "k": 0, "conv": ""},
                    {"act": "marshal", "b": "b1", "pre": [], "spare": 0, "i": i, "k": 2, "conv": "ptr"},
                    {"act": "marshal", "b": "b1", "pre": [], "spare": 0, "i": 1 + (i % nfixed), "k": 2, "conv": "val"}]})
    # the buffer-reuse pattern, for every hand-picked item and every triple of its values: decode k1 from b1, overwrite b1 in place with
    # the encoding of k2 (marshal into b1[:0]), decode a third value from another buffer, decode b1 again - whatever the library kept from the
    # first decode (an interning table key, a scratch buffer, a view of the input) now sees other bytes
    import itertools, random as _random
    prnd = _random.Random(ctx.seed + 17)
    npat = 0
    for i in range(1, nfixed + 1):
        ks = list(range(1, len(cat[i - 1]["vals"]) + 1))
        triples = list(itertools.product(ks, ks, ks))
        if len(triples) > (64 if ctx.quick else 400):
            triples = prnd.sample(triples, 64 if ctx.quick else 400)
        for (k1, k2, k3) in triples:
            st0 = lambda act, b, k=0, conv="": {"act": act, "b": b, "pre": [], "spare": 0, "i": i, "k": k, "conv": conv}
            sim.append({"ev": "hist", "steps": [st0("marshal", "b1", k1, "ptr"), st0("unmarshal", "b1"), st0("reuse", "b1", k2, "ptr"),
                                                 st0("marshal", "b2", k3, "val"), st0("unmarshal", "b2"), st0("unmarshal", "b1"), st0("fresh", ""),
                                                 st0("unmarshal", "b1")]})
            npat += 1
    log("buffer-reuse pattern histories: %d" % npat)
    allc = cases + sim
    for c in allc:
        c["cfg"] = fam_codec.CFGS["default"]
    p1 = os.path.join(ctx.work, "hist_cases.ndjson")
    fam_codec.write_cases(allc, p1, 0)
    os.environ["PVH_CAT_N"] = str(nfixed)       # the hand-picked items, whose values are chosen to collide (same lengths, shared prefixes)
    p2 = fam_codec.gen_random(ctx.pvh, ctx.work, nsim, ctx.seed, cfg="default", kind="hist", idbase=1000000, tag="rhist")
    os.environ["PVH_CAT_N"] = "0"
    ctx.case_files = [p1, p2]
    t1 = fam_codec.run_cases(ctx.pvh, p1, ctx.work, "hist")
    t2 = fam_codec.run_cases(ctx.pvh, p2, ctx.work, "rhist")
    parts = [t1, t2]
    if len(cat) > nfixed:                        # ... and histories over all items, the random ones included
        p3 = fam_codec.gen_random(ctx.pvh, ctx.work, nsim // 2, ctx.seed + 5, cfg="default", kind="hist", idbase=3000000, tag="rhist2")
        ctx.case_files.append(p3)
        parts.append(fam_codec.run_cases(ctx.pvh, p3, ctx.work, "rhist2"))
    trace = os.path.join(ctx.work, "all_trace.ndjson")
    with open(trace, "wb") as f:
        for t in parts:
            shutil.copyfileobj(open(t, 'rb'), f)
    ctx.judge_kw = dict(extra_consts='  CatFile = "%s"\n  Cat <- CatLit\n  Bufs = {"b1", "b2"}\n  MaxSteps = 100\n  GenIdx <- AllIdx\n' % catp,
                        defs="CatLit == " + vlib.tla_literal(cat))
    ctx.judge_kw_module = "TraceSystem"
    verdicts, jst = vlib.judge(ctx.work, "TraceSystem", trace, ctx.env, ctx.open, tag="main", **ctx.judge_kw)
    if relabel:
        verdicts = [(i, relabel, p + ":" + r) for (i, p, r) in verdicts]
        ctx.relabel = relabel
    traces, more = [trace], ""
    if extra:
        v2, st2, tr2, more = extra(ctx)
        verdicts += v2
        traces += tr2
        for k in ("events", "generated", "distinct"):
            jst[k] = jst.get(k, 0) + st2.get(k, 0)
    rule = ("histories of API calls (newbuf with prefix {0,1,3 bytes} x spare capacity {0,1,64}; marshal by pointer / by value; marshal into data[:0]; "
            "unmarshal; scribble; fresh variable) over a catalogue of %d (type, value) items incl. values that encode to nothing and pointer-shaped "
            "by-value shapes: all %d histories of length 3 on one buffer + %d random histories of 6..12 calls on two buffers. One TLC state per call; "
            "distinct = distinct histories; non-trivial = contains a marshal of a value with a non-empty encoding" % (len(cat), len(cases), nsim)) + more
    return finish(ctx, "TraceSystem", verdicts, traces, jst, rule, CODEC_ASSUME + [
        "aliasing is detected through its observable consequence: the source value is scrambled in place after every Marshal, buffers are overwritten by "
        "scribble steps, and every live buffer and variable is re-read after every call"])


TARGETS_RE = re.compile(r'^<<"TARGETS", (".*")>>$')


def plan_C04(ctx):
    ctx.build()
    maxlen = 3 if ctx.quick else 4
    cfg = "CONSTANTS\n  Env <- MCEnv\n  MaxLen = %d\n  Emit = TRUE\nSPECIFICATION Spec\nINVARIANTS WalkProgress DecodeTotal SkipBounded EmitCase\nCHECK_DEADLOCK FALSE\n" % maxlen
    out, st = vlib.tlc(ctx.work, "MCHostile", cfg, workers=vlib.NCPU, timeout=2400, heap="8g")
    if "is violated" in out or "Error:" in out or st["rc"] != 0:
        raise Broken("design check MCHostile failed:\n" + vlib.tlc_brief(out))
    ctx.add_mc(st)
    strings, targets = [], None
    for line in out.splitlines():
        m = fam_codec.CASE_RE.match(line)
        if m:
            strings.append(json.loads(json.loads(m.group(1)))["input"])
        m = TARGETS_RE.match(line)
        if m:
            targets = json.loads(json.loads(m.group(1)))
    if not targets or not strings:
        raise Broken("MCHostile emitted no targets / strings")
    # thorough: expand the last two positions over the same alphabet (plain enumeration) for the length-4 prefixes
    alphabet = [0, 1, 2, 8, 10, 11, 13, 18, 19, 127, 128, 255]
    if not ctx.quick:
        ext = [s + [a] for s in strings if len(s) == 4 for a in alphabet]
        strings += ext
    cases = []
    for t in targets:
        rec = t["T"].get("k") == "ref"
        for s in strings:
            for via in (("unmarshal",) if rec else ("unmarshal", "descriptor")):
                cases.append({"ev": "hostile", "T": t["T"], "cfg": fam_codec.CFGS[t["cfg"]], "input": s, "via": via})
    # the same strings as the body of a field the reader does not know (index 7, length-delimited and counted), inside a slice
    # element, a nested struct and a map value: what Skip reports there is used by a caller that has more to read
    def keyof(t):
        return json.dumps(t["T"], sort_keys=True)
    S2 = {"k": "struct", "name": "", "f": [
        {"i": 1, "n": "A", "gn": "A", "enc": True, "opt": "", "tag": "", "t": {"k": "int", "w": 64}},
        {"i": 2, "n": "B", "gn": "B", "enc": True, "opt": "", "tag": "", "t": {"k": "string"}}]}
    want = {json.dumps({"k": "slice", "e": S2}, sort_keys=True): "slice"}
    nested_targets = []
    for t in targets:
        T = t["T"]
        if keyof(t) in want:
            nested_targets.append((t, "slice"))
        elif T.get("k") == "map" and T["val"].get("k") == "struct" and T["key"].get("k") == "struct":
            nested_targets.append((t, "mapval"))
        elif T.get("k") == "struct" and len(T["f"]) == 2 and T["f"][1]["t"].get("k") == "struct" and len(T["f"][1]["t"]["f"]) == 2 \
                and T["f"][1]["t"]["f"][1]["t"].get("k") == "slice":
            nested_targets.append((t, "nested"))
    if len(nested_targets) < 2:
        raise Broken("MCHostile's targets no longer contain the slice-of-struct / nested shapes the embedded cases need")
    short = [s for s in strings if len(s) <= 3]
    nemb = 0
    for (t, shape) in nested_targets:
        rec = t["T"].get("k") == "ref"
        for s in short:
            for w in (2, 3):
                body = [7 << 3 | w] + s
                if len(body) > 120:
                    continue
                for count in (1, 2):
                    if shape == "slice":
                        inp = [count, len(body)] + body
                    elif shape == "nested":
                        inner = [0x13, count, len(body)] + body
                        inp = [0x12, len(inner)] + inner
                    else:
                        entry = [0x0a, 2, 0x08, 0x02, 0x12, len(body)] + body        # key {A: 1}, value: a struct holding only the unknown field
                        inp = [count, len(entry)] + entry
                    for via in ("unmarshal", "descriptor"):
                        cases.append({"ev": "hostile", "T": t["T"], "cfg": fam_codec.CFGS[t["cfg"]], "input": inp, "via": via})
                        nemb += 1
    log("design check MCHostile: %d states; %d strings x %d targets -> %d cases (%d of them embedded as unknown fields in %d nested shapes)"
        % (st["distinct"], len(strings), len(targets), len(cases), nemb, len(nested_targets)))
    p1 = os.path.join(ctx.work, "mc_cases.ndjson")
    fam_codec.write_cases(cases, p1, 0)
    n = 40000 if ctx.quick else 600000
    p2 = fam_codec.gen_random(ctx.pvh, ctx.work, n, ctx.seed, cfg="mix", kind="hostile", idbase=100000000, tag="mut")
    ctx.case_files = [p1, p2]
    traces = [run_hostile(ctx, p1, "mc"), run_hostile(ctx, p2, "mut")]
    trace = os.path.join(ctx.work, "all_trace.ndjson")
    with open(trace, "wb") as f:
        for t in traces:
            shutil.copyfileobj(open(t, 'rb'), f)
    ctx.run_kw = dict(mem=4096)
    verdicts, jst = vlib.judge(ctx.work, "TraceHostile", trace, ctx.env, ctx.open, tag="main")
    rule = ("S->C: every byte string up to length %d over {00 01 02 08 0a 0b 0d 12 13 7f 80 ff}%s x %d target types (one per codec, both slice forms, maps with "
            "scalar / struct keys, time in both modes, null types, JSON-any, proto forms, a recursive type) x {Unmarshal, Descriptor.Read}; C->S: %d byte-wise "
            "mutations (truncation, byte replacement, huge / overflowing varints spliced in, deletions) of valid encodings of random types. Workers run under "
            "ulimit -v 4 GiB with a 10 s budget per case. non-trivial = non-empty input" % (maxlen, "" if ctx.quick else " (+ length 5 by expansion)", len(targets), n))
    return finish(ctx, "TraceHostile", verdicts, [trace], jst, rule, [
        "the verdict is an observation of the real decoder on model-generated inputs: returned / error / panic / fatal fault / timeout and TotalAlloc delta; "
        "a read outside the input through unsafe that neither faults nor changes the outcome is invisible",
        "allocation bound: 1 MiB + 4 KiB per input byte, measured process-wide in a worker that runs one case at a time"])


def run_hostile(ctx, cases, tag):
    out = os.path.join(ctx.work, tag + "_trace.ndjson")
    vlib.run([ctx.pvh, "run", "-in", cases, "-out", out, "-budget", "10s", "-memMB", "4096"], timeout=7200)
    for line in open(out):
        if '"kind":"harness-error"' in line:
            raise Broken("the harness could not build a case: " + line[:600])
    return out


def bad_recursive_cases():
    def fd(name, tag, pt, t):
        return {"n": name, "gn": name, "exported": True, "pt": pt, "raw": True, "tag": tag, "t": t, "i": 0, "enc": False, "opt": ""}
    idx = lambda i: {"form": "index", "idx": i, "opt": ""}
    none = {"form": "none", "idx": 0, "opt": ""}
    self = {"k": "self"}
    st = lambda fs: {"k": "struct", "name": "", "f": fs}
    return [
        {"ev": "typedef", "gotype": "BadRecS", "u": ["recursive", "slice"],
         "T": st([fd("Kids", 'plenc:"1"', idx(1), {"k": "slice", "e": self}), fd("C", 'plenc:"2"', idx(2), {"k": "unsup", "g": "complex64"})])},
        {"ev": "typedef", "gotype": "BadRecP", "u": ["recursive", "ptr"],
         "T": st([fd("Next", 'plenc:"1"', idx(1), {"k": "ptr", "e": self}), fd("F", 'plenc:"2"', idx(2), {"k": "unsup", "g": "chan"})])},
        {"ev": "typedef", "gotype": "BadRecM", "u": ["recursive", "mapval"],
         "T": st([fd("M", 'plenc:"1"', idx(1), {"k": "map", "key": {"k": "string"}, "val": self}), fd("X", "", none, {"k": "int", "w": 64})])},
        {"ev": "typedef", "gotype": "BadRecD", "u": ["recursive", "slice", "dup"],
         "T": st([fd("Kids", 'plenc:"1"', idx(1), {"k": "slice", "e": self}), fd("A", 'plenc:"2"', idx(2), {"k": "int", "w": 64, "g": "int"}), fd("B", 'plenc:"2"', idx(2), {"k": "string"})])},
        {"ev": "typedef", "gotype": "BadRecDP", "u": ["recursive", "ptr", "dup"],
         "T": st([fd("A", 'plenc:"1"', idx(1), {"k": "int", "w": 64, "g": "int"}), fd("Next", 'plenc:"3"', idx(3), {"k": "ptr", "e": self}), fd("B", 'plenc:"1"', idx(1), {"k": "int", "w": 64, "g": "int"})])},
    ]


def embedded_cases():
    """Definitions with embedded struct fields, as static Go types of the harness (gotype)."""
    def fd(name, exported, tag, pt, t):
        return {"n": name, "gn": name, "exported": exported, "pt": pt, "raw": True, "tag": tag, "t": t, "i": 0, "enc": False, "opt": ""}
    idx = lambda i: {"form": "index", "idx": i, "opt": ""}
    none = {"form": "none", "idx": 0, "opt": ""}
    st = lambda fs: {"k": "struct", "name": "", "f": fs}
    base = st([fd("X", True, 'plenc:"1"', idx(1), {"k": "int", "w": 64, "g": "int"})])
    name = fd("Name", True, 'plenc:"1"', idx(1), {"k": "string"})
    return [
        {"ev": "typedef", "gotype": "EmbLow", "u": ["embedded", "unexported-type"], "T": st([fd("embBase", False, "", none, base), name])},
        {"ev": "typedef", "gotype": "EmbUp", "u": ["embedded", "exported-type-tagged"], "T": st([fd("EmbBase", True, 'plenc:"2"', idx(2), base), name])},
        {"ev": "typedef", "gotype": "EmbUpNoTag", "u": ["embedded", "exported-type-untagged"], "T": st([fd("EmbBase", True, "", none, base), name])},
    ]


def plan_C08(ctx):
    ctx.build()
    cases, st = fam_codec.mc_generic(ctx.work, "MCTypes", "  Env <- MCEnv\n  Emit = TRUE\n", "ClassTotal SkippedIgnored AcceptedEncodes DupRejected")
    ctx.add_mc(st)
    cases += bad_recursive_cases() + embedded_cases()
    log("design check MCTypes: %d states, %d definitions" % (st["distinct"], len(cases)))
    for c in cases:
        c["cfg"] = fam_codec.CFGS["default"]
    p1 = os.path.join(ctx.work, "mc_cases.ndjson")
    fam_codec.write_cases(cases, p1, 0)
    ctx.case_files = [p1]
    trace = fam_codec.run_cases(ctx.pvh, p1, ctx.work, "mc")
    verdicts, jst = vlib.judge(ctx.work, "TraceTypes", trace, ctx.env, ctx.open, tag="main")
    rule = ("every definition of MCTypes' universe: field kind (9 supported kinds + complex64/128, array, chan, func, interface, uintptr, unsafe.Pointer) x "
            "position (field, pointer target, slice element, map key, map value, nested struct field, slice of slices, map of maps, pointer to map, slice of "
            "maps, slice of pointers, pointer to pointer, top level) x 19 tag strings (well-formed and malformed) x exported / unexported, two-field "
            "definitions sharing an index, and recursive definitions that must be rejected; a returned codec is used on the zero value and on a populated "
            "value, decoding into a pre-populated target; after a rejection the types possibly published on the way are requested again and used. "
            "distinct = distinct definitions; non-trivial = not the empty struct")
    return finish(ctx, "TraceTypes", verdicts, [trace], jst, rule, CODEC_ASSUME + [
        "the abstract reading of each tag string (index / dash / none / bad) is part of the specification's table and follows strconv.Atoi"])


def limbs(n):
    out = []
    while n > 0:
        out.append(n % 128)
        n //= 128
    return out


def jo_call(op, b=None, n=0, flag=False, bits=None, nsec=0):
    b = list(b or [])
    try:
        bytes(b).decode("utf-8")
        u8 = True
    except UnicodeDecodeError:
        u8 = False
    return {"op": op, "b": b, "n": {"neg": n < 0, "mag": limbs(abs(n))}, "flag": flag, "bits": list(bits or []), "nsec": nsec, "u8": u8}


def plan_C15(ctx):
    import struct
    ctx.build()
    maxtok = 12 if ctx.quick else 15
    consts = "  MaxDepth = 3\n  MaxWidth = 3\n  MaxTokens = %d\n  Scalars = {\"n\", \"s\"}\n  Names = {\"a\", \"e\"}\n  Emit = TRUE\n" % maxtok
    docs, st = fam_codec.mc_generic(ctx.work, "MCJSONOut", consts, "DoneIsValid StackMirrors ResetIsInit")
    ctx.add_mc(st)
    sym = {"n": jo_call("i64", n=7), "s": jo_call("str", b=b"x"), "a": b"a", "e": b""}
    cases = []
    for d in docs:
        calls = []
        for c in d["calls"]:
            if c["op"] == "sc":
                calls.append(sym[c["x"]])
            elif c["op"] == "nf":
                calls.append(jo_call("nf", b=sym[c["x"]]))
            else:
                calls.append(jo_call(c["op"]))
        cases.append({"ev": "jsonout", "calls": calls, "pre": [calls] if d["docs"] else []})
    # every container / scalar adjacency is in the enumeration above; the value universes follow
    alpha = [b'"', b"\\", b"\n", b"\r", b"\t", b"\x00", b"\x1f", b" ", b"a", b"\x7f", b"\x80", "\u00e9".encode(), "\u2028".encode()]
    strs = [bytes([i]) for i in range(256)] + [x + y for x in alpha for y in alpha]
    if not ctx.quick:
        strs += [x + y + z for x in alpha for y in alpha for z in alpha]
    for sv in strs:
        cases.append({"ev": "jsonout", "calls": [jo_call("str", b=sv)], "pre": []})
        cases.append({"ev": "jsonout", "calls": [jo_call("so"), jo_call("nf", b=sv), jo_call("i64", n=1), jo_call("nf", b=b"next"), jo_call("str", b=sv), jo_call("eo")], "pre": []})
    ints = sorted(set([0, 1, -1] + [s * (2 ** k + d) for k in range(0, 64) for d in (-1, 0, 1) for s in (1, -1)]))
    for v in ints:
        if -2 ** 63 <= v < 2 ** 63:
            cases.append({"ev": "jsonout", "calls": [jo_call("sa"), jo_call("i64", n=v), jo_call("i64", n=v), jo_call("ea")], "pre": []})
        if 0 <= v < 2 ** 64:
            cases.append({"ev": "jsonout", "calls": [jo_call("u64", n=v)], "pre": []})
    cases.append({"ev": "jsonout", "calls": [jo_call("u64", n=2 ** 64 - 1)], "pre": []})
    floats = [0.0, -0.0, 1.0, -1.5, 0.1, 1e20, 1e21, 1e22, 1e-6, 1e-7, 5e-324, 1.7976931348623157e308, 123456789.125, 2.0 ** 53 + 2, 1 / 3]
    for f in floats:
        cases.append({"ev": "jsonout", "calls": [jo_call("f64", bits=struct.pack("<d", f))], "pre": []})
        try:
            cases.append({"ev": "jsonout", "calls": [jo_call("so"), jo_call("nf", b=b"f"), jo_call("f32", bits=struct.pack("<f", f)), jo_call("eo")], "pre": []})
        except OverflowError:
            pass
    log("design check MCJSONOut: %d states, %d documents; %d cases with the value universes" % (st["distinct"], len(docs), len(cases)))
    for c in cases:
        c["cfg"] = fam_codec.CFGS["default"]
    p1 = os.path.join(ctx.work, "mc_cases.ndjson")
    fam_codec.write_cases(cases, p1, 0)
    n = 5000 if ctx.quick else 300000
    p2 = fam_codec.gen_random(ctx.pvh, ctx.work, n, ctx.seed, cfg="default", kind="jsonout", idbase=10000000, tag="rnd")
    ctx.case_files = [p1, p2]
    t1 = fam_codec.run_cases(ctx.pvh, p1, ctx.work, "mc")
    t2 = fam_codec.run_cases(ctx.pvh, p2, ctx.work, "rnd")
    trace = os.path.join(ctx.work, "all_trace.ndjson")
    with open(trace, "wb") as f:
        shutil.copyfileobj(open(t1, 'rb'), f)
        shutil.copyfileobj(open(t2, 'rb'), f)
    verdicts, jst = vlib.judge(ctx.work, "TraceJSONOut", trace, ctx.env, ctx.open, tag="main")
    rule = ("S->C: every well-nested call sequence of the JSONOutput machine up to %d output tokens (depth <= 3, two scalar kinds, names 'a' and ''), "
            "fresh and re-used after Reset; all 256 one-byte strings, all pairs%s over a 13-class byte alphabet as values and as field names; every "
            "2^k, 2^k+-1 as int64 / uint64; boundary floats; C->S: %d random call trees (depth <= 5, every scalar kind, hostile strings and names) on "
            "outputters re-used after complete and abandoned documents. non-trivial = more than one call" % (maxtok, "" if ctx.quick else " and triples", n))
    return finish(ctx, "TraceJSONOut", verdicts, [trace], jst, rule, [
        "the real output is parsed with encoding/json (Decoder.Token with UseNumber, objects as ordered key lists so that duplicate or missing keys are visible)",
        "for strings that are not valid UTF-8 only validity of the document is required"])


def plan_C19(ctx):
    return system_family(ctx, catname="MCCat19", quick_idx="Quick19", relabel="C19", extra_inv="InternTransparent", sweep=False)


def plan_C17(ctx):
    return system_family(ctx, catname="MCCat17", quick_idx="Quick17", relabel="C17", extra_inv="ScopedDiffer", sweep=False)


def plan_C20(ctx):
    ctx.build()
    # the tool under test is built from the repository's working tree
    tool = os.path.join(ctx.work, "plenctag")
    r = vlib.run(["go", "build", "-o", tool, "./cmd/plenctag"], cwd=vlib.REPO, check=False)
    if r.returncode != 0:
        raise Broken("plenctag does not build:\n" + r.stderr[-1500:])
    os.environ["PVH_PLENCTAG"] = tool
    tmp = os.path.join(ctx.work, "tagtmp")
    os.makedirs(tmp, exist_ok=True)
    os.environ["PVH_TMP"] = tmp
    structs, st = fam_codec.mc_generic(ctx.work, "MCTag", "  MaxFields = 2\n  Emit = TRUE\n", "Satisfiable Idempotent Frame")
    ctx.add_mc(st)
    import random
    rnd = random.Random(ctx.seed)
    by = collections.defaultdict(list)
    for c in structs:
        by[json.dumps(c["flags"], sort_keys=True)].append(c["fields"])
    wh = ["top", "generic", "local", "nested"]
    files = []
    for fl, ss in sorted(by.items()):
        if ctx.quick:                      # every 1-field struct and a seeded sample of the 2-field ones
            ones = [x for x in ss if len(x) == 1]
            twos = [x for x in ss if len(x) == 2]
            rnd.shuffle(twos)
            ss = ones + twos[:1500]
        for i in range(0, len(ss), 50):
            chunk = ss[i:i + 50]
            files.append({"ev": "tag", "flags": json.loads(fl), "structs": [{"where": wh[(i // 50 + j) % 4], "fields": f} for j, f in enumerate(chunk)]})
    # larger random structs: 3..8 fields, malformed tags now and then
    variants = [c["fields"][0] for c in structs if len(c["fields"]) == 1]
    nrand = 150 if ctx.quick else 3000
    for n in range(nrand):
        ss = []
        for j in range(rnd.randint(1, 12)):
            fs = [json.loads(json.dumps(rnd.choice(variants))) for _ in range(rnd.randint(3, 8))]
            while sum(1 for f in fs if not f["names"]) > 2:      # two embeddable types exist
                fs.remove(next(f for f in fs if not f["names"]))
            used = set()
            for f in fs:                   # existing indexes are unique (valid input); indexes are scattered
                if f["plenc"]["form"] == "index":
                    v = rnd.choice([x for x in (1, 2, 3, 5, 8, 13, 40, 300) if x not in used])
                    used.add(v)
                    f["plenc"]["idx"] = v
            if rnd.random() < 0.03:
                fs[0]["malformed"] = True
            ss.append({"where": rnd.choice(wh), "fields": fs})
        files.append({"ev": "tag", "flags": {"json": rnd.random() < 0.5, "sql": rnd.random() < 0.7, "private": rnd.random() < 0.7}, "structs": ss})
    log("design check MCTag: %d states, %d abstract structs; %d files (%d random)" % (st["distinct"], len(structs), len(files), nrand))
    for c in files:
        c["cfg"] = fam_codec.CFGS["default"]
    p1 = os.path.join(ctx.work, "tag_cases.ndjson")
    fam_codec.write_cases(files, p1, 0)
    ctx.case_files = [p1]
    trace = fam_codec.run_cases(ctx.pvh, p1, ctx.work, "tag", budget="60s")
    verdicts, jst = vlib.judge(ctx.work, "TraceTag", trace, ctx.env, ctx.open, tag="main")
    rule = ("abstract structs of up to 2 fields over 96 field variants (exported / unexported / two names / embedded x no / '-' / numeric plenc tag x "
            "sql:'-' / json:'-' / json name x another tag key) x the 8 combinations of -json -sql -private, rendered 50 to a file as top-level, generic, "
            "function-local and nested anonymous structs; plus %d random files of structs with 3..8 fields, scattered existing indexes and malformed tags. "
            "For every file: write mode, stdout mode, second run, gofmt, go/types, plenc.CodecForType on every tagged struct. distinct = distinct files; "
            "non-trivial = the file has a field without a plenc tag" % nrand)
    return finish(ctx, "TraceTag", verdicts, [trace], jst, rule, [
        "only files expressible in the abstract struct model are generated (field lists, names, tags, struct positions); comments and code outside structs are "
        "constant text that must survive unchanged",
        "pre-existing duplicate indexes are the user's: plenc's verdict is only demanded for structs whose existing tags were valid"])


def plan_C07(ctx):
    import random, fam_sched
    ctx.build()
    # 1. design: all interleavings of codec construction (repaired protocol) and of interning
    fams2 = ["WantRS", "WantRR", "WantP", "WantM", "WantAB", "WantAsB", "WantN", "WantF", "WantFR", "WantD", "WantG", "WantKR"]
    runs = [(w, "{p1, p2}") for w in fams2] + ([] if ctx.quick else [("WantK", "{p1, p2}"), ("Want3", "{p1, p2, p3}")])      # (Want3AB, three processes on the mutually recursive pair, does not finish within an hour since the model has the flushed / stored steps)
    def mc_build(wp):
        w, procs = wp
        cfg = ("CONSTANTS\n  p1 = p1\n  p2 = p2\n  p3 = p3\n  Procs = %s\n  Want <- %s\n  TypeDef <- MCTypeDef\n  Publish = \"pending\"\nSPECIFICATION Spec\n"
               "INVARIANTS NoIncompleteUse RegistryClosed RegistryComplete SameResult\nCHECK_DEADLOCK FALSE\n" % (procs, w))
        out, st = vlib.tlc(ctx.work, "MCBuild", cfg, name="mcb_" + w, workers=4, timeout=3000, heap="6g")
        if "is violated" in out or "Error:" in out or st["rc"] != 0:
            raise Broken("design check CodecBuild (%s) failed:\n%s" % (w, vlib.tlc_brief(out)))
        return st
    import concurrent.futures as cf
    with cf.ThreadPoolExecutor(max_workers=4) as ex:
        for st in ex.map(mc_build, runs):
            ctx.add_mc(st)
    # liveness on the smallest family, and the negative control: the protocol before the repair is rejected by the same model
    cfgl = ("CONSTANTS\n  p1 = p1\n  p2 = p2\n  p3 = p3\n  Procs = {p1, p2}\n  Want <- WantRS\n  TypeDef <- MCTypeDef\n  Publish = \"pending\"\nSPECIFICATION FairSpec\nPROPERTY Terminates\nCHECK_DEADLOCK FALSE\n")
    out, st = vlib.tlc(ctx.work, "MCBuild", cfgl, name="mcb_live", workers=4, timeout=1500)
    if "is violated" in out or "Error:" in out or st["rc"] != 0:
        raise Broken("liveness check of CodecBuild failed:\n" + vlib.tlc_brief(out))
    ctx.add_mc(st)
    cfgn = ("CONSTANTS\n  p1 = p1\n  p2 = p2\n  p3 = p3\n  Procs = {p1, p2}\n  Want <- WantRS\n  TypeDef <- MCTypeDef\n  Publish = \"direct\"\nSPECIFICATION Spec\nINVARIANTS NoIncompleteUse\nCHECK_DEADLOCK FALSE\n")
    outn, _ = vlib.tlc(ctx.work, "MCBuild", cfgn, name="mcb_neg", workers=1, timeout=600)
    neg_ok = "Invariant NoIncompleteUse is violated" in outn
    if not neg_ok:
        raise Broken("negative control failed: the model does not reject the protocol that publishes wrappers during a build")
    cfgi = ("CONSTANTS\n  p1 = p1\n  p2 = p2\n  p3 = p3\n  Procs = %s\n  Words = {\"a\", \"b\", \"\"}\n  MaxCalls = %d\nSPECIFICATION Spec\n"
            "INVARIANTS Transparent TableSound NoViews\nPROPERTY Monotone\nCHECK_DEADLOCK FALSE\n" % (("{p1, p2}", 4) if ctx.quick else ("{p1, p2, p3}", 4)))
    outi, sti = vlib.tlc(ctx.work, "MCIntern", cfgi, name="mci", workers=vlib.NCPU, timeout=3000, heap="8g")
    if "is violated" in outi or "Error:" in outi or sti["rc"] != 0:
        raise Broken("design check Intern failed:\n" + vlib.tlc_brief(outi))
    ctx.add_mc(sti)
    # the key scratch pool: the protocol as it is, and two faulty ones the model must tell apart
    for proto, want_viol in (("defer", False), ("early", True), ("double", True)):
        cfgk = ("CONSTANTS\n  p1 = p1\n  p2 = p2\n  p3 = p3\n  Procs = %s\n  Keys = {1, 2}\n  NBufs = %d\n  MaxEntries = 2\n  Protocol = \"%s\"\n"
                "SPECIFICATION Spec\nINVARIANTS NoCrossTalk%s\nCHECK_DEADLOCK FALSE\n"
                % ("{p1, p2}" if ctx.quick or want_viol else "{p1, p2, p3}", 2 if ctx.quick or want_viol else 3, proto, "" if want_viol else " Exclusive"))
        outk, stk = vlib.tlc(ctx.work, "MCKeyPool", cfgk, name="mck_" + proto, workers=4, timeout=1500)
        viol = "Invariant NoCrossTalk is violated" in outk
        if viol != want_viol or (not want_viol and ("Error:" in outk or stk["rc"] != 0)):
            raise Broken("design check KeyPool (%s) did not come out as expected:\n%s" % (proto, vlib.tlc_brief(outk)))
        if not want_viol:
            ctx.add_mc(stk)
    log("design checks CodecBuild (%d configurations, liveness, negative control), Intern and KeyPool: %d states" % (len(runs), ctx.states))
    # 2. schedules replayed on the real library through the yield hooks
    rnd = random.Random(ctx.seed)
    cases = fam_sched.cases(ctx.quick, rnd)
    stress = []
    for name, procs in fam_sched.families(ctx.quick):
        stress.append({"ev": "stress", "family": name, "rounds": 150 if ctx.quick else 3000, "copies": 3,
                       "procs": [{"op": op, "T": t, "v": v} for (op, t, v) in procs]})
    for c in cases + stress:
        c["cfg"] = fam_codec.CFGS["default"]
    p1 = os.path.join(ctx.work, "sched_cases.ndjson")
    p2 = os.path.join(ctx.work, "stress_cases.ndjson")
    fam_codec.write_cases(cases, p1, 0)
    fam_codec.write_cases(stress, p2, 5000000)
    # 3. the same executions under the race detector: a sample of the schedules and the free-running stress
    racebin = vlib.build_harness(ctx.work + "/race", race=True)
    sample = cases[::7] if ctx.quick else cases[::25]
    p3 = os.path.join(ctx.work, "race_cases.ndjson")
    fam_codec.write_cases(sample + stress, p3, 7000000)
    ctx.case_files = [p1, p2, p3]
    os.environ["PVH_GOMAXPROCS"] = "8"
    t1 = fam_codec.run_cases(ctx.pvh, p1, ctx.work, "sched", budget="30s")
    t2 = fam_codec.run_cases(ctx.pvh, p2, ctx.work, "stress", budget="120s")
    t3 = fam_codec.run_cases(racebin, p3, ctx.work, "race", budget="300s")
    trace = os.path.join(ctx.work, "all_trace.ndjson")
    with open(trace, "wb") as f:
        for t in (t1, t2, t3):
            shutil.copyfileobj(open(t, 'rb'), f)
    ctx.racebin = racebin
    verdicts, jst = vlib.judge(ctx.work, "TraceSched", trace, ctx.env, ctx.open, tag="main")
    # 4. the yield-hook logs of the scheduled executions, validated action by action against CodecBuild
    vb, jb = vlib.judge(ctx.work, "TraceBuild", t1, ctx.env, ctx.open, tag="build", **BUILD_KW)
    verdicts += vb
    for k in ("generated", "distinct"):
        jst[k] += jb[k]
    neg_rejected = None
    if not vb:
        # the binding has teeth: the same logs are not behaviours of the model of the protocol before the repair
        sample = os.path.join(ctx.work, "neg_trace.ndjson")
        open(sample, "w").writelines(open(t1).readlines()[::5])
        vn, _ = vlib.judge(ctx.work, "TraceBuild", sample, ctx.env, ctx.open, tag="buildneg", extra_consts='  PublishMode = "direct"\n')
        neg_rejected = len(vn)
        if neg_rejected == 0:
            raise Broken("trace validation against CodecBuild is vacuous: the model of the pre-repair protocol accepts every recorded hook log")
    vi, ji = vlib.judge(ctx.work, "TraceIntern", t1, ctx.env, ctx.open, tag="intern")
    verdicts += vi
    for k in ("generated", "distinct"):
        jst[k] += ji[k]
    vk, jk = vlib.judge(ctx.work, "TraceKeyPool", t1, ctx.env, ctx.open, tag="kpool")
    verdicts += vk
    for k in ("generated", "distinct"):
        jst[k] += jk[k]
    log("hook logs validated against CodecBuild: %d events, %d model steps, %d rejected; pre-repair model rejects %s of a fifth of them" % (jb["events"], jb["distinct"], len(vb), neg_rejected))
    nhooks = 0
    for line in open(t1):
        nhooks += line.count('"point"')
    rule = ("design: every interleaving of 2 (thorough: also 3) processes building codecs for recursive-through-slice / pointer / map, mutually recursive, nested "
            "and failing families on a shared registry, and of 2-3 processes interning 3 words; replay: %d schedules with at most two preemptions (first a "
            "steps of one goroutine, then b of another, then to completion; a < %d, b from a Fibonacci-spaced set in the quick tier) plus random schedules over %d families of concurrent first uses "
            "(marshal / unmarshal / CodecForType of related types, struct-keyed map decodes sharing the key scratch pool, interned fields), %d yield points "
            "granted; free-running stress of the same families; a sample of the schedules and the stress under the race detector. "
            "distinct = distinct (family, schedule); non-trivial = at least one preemption" % (len(cases), 40 if ctx.quick else 70, len(fam_sched.families(ctx.quick)), nhooks))
    return finish(ctx, "TraceSched", verdicts, [trace], jst, rule, [
        "atomicity and ordering are decided at the granularity of the yield hooks; data races in the memory-model sense are what the race detector reports on the "
        "replayed schedules and the stress run",
        "one P (GOMAXPROCS=1) during a scheduled replay so that sync.Pool hand-over between goroutines is deterministic"],
        extra={"negative_control_model_rejects_pre_repair_protocol": neg_ok, "yield_points_granted": nhooks,
               "hook_logs_validated_against_CodecBuild": jb["events"], "CodecBuild_steps_matched": jb["distinct"],
               "hook_logs_rejected_by_pre_repair_model_in_sample": neg_rejected,
               "Intern_steps_matched": ji["distinct"] - ji["events"], "KeyPool_steps_matched": jk["distinct"] - jk["events"]})


def plan_C06(ctx):
    return system_family(ctx)


def plan_C11(ctx):
    return system_family(ctx, extra=c11_extra)


def plan_C03(ctx):
    return decode_family(ctx, ["evolve"], 5000, 50000)


def plan_C10(ctx):
    return decode_family(ctx, ["merge", "evolve"], 4000, 30000, with_codec_sessions=True)


def plan_C18(ctx):
    ctx.build()
    cases, st = fam_codec.mc_generic(ctx.work, "MCPrim", "  MaxLimbs = %d\n  Emit = TRUE\n" % (3 if ctx.quick else 5),
                                     "SkipExact SkipInRange VarUintAgree VarIntAgree ZagZigAgree TagAgree")
    ctx.add_mc(st)
    log("design check MCPrim: %d states, %d cases" % (st["distinct"], len(cases)))
    for c in cases:
        c["cfg"] = fam_codec.CFGS["default"]
    p1 = os.path.join(ctx.work, "mc_cases.ndjson")
    fam_codec.write_cases(cases, p1, 0)
    n = 30000 if ctx.quick else 2000000
    p2 = fam_codec.gen_random(ctx.pvh, ctx.work, n, ctx.seed, cfg="default", kind="prim")
    ctx.case_files = [p1, p2]
    t1 = fam_codec.run_cases(ctx.pvh, p1, ctx.work, "mc")
    t2 = fam_codec.run_cases(ctx.pvh, p2, ctx.work, "rnd")
    trace = os.path.join(ctx.work, "all_trace.ndjson")
    with open(trace, "wb") as f:
        shutil.copyfileobj(open(t1, 'rb'), f)
        shutil.copyfileobj(open(t2, 'rb'), f)
    verdicts, jst = vlib.judge(ctx.work, "TracePrim", trace, ctx.env, ctx.open, tag="main")
    rule = ("S->C: MCPrim's universe (all 2^j, 2^j+-1, 7k-bit boundaries, every canonical limb sequence of length <= %d over "
            "{0,1,2,63,64,65,126,127}; tags for wire types 0..5; Skip over well-formed fields of every wire type and all their truncations, "
            "over-long / overflowing / huge lengths and counts, unknown wire types); C->S: %d random 64-bit values, tags and byte strings. "
            "non-trivial = not the empty input" % (3 if ctx.quick else 5, n))
    return finish(ctx, "TracePrim", verdicts, [trace], jst, rule,
                  ["TLC integers are 32-bit: 64-bit values are compared as base-128 limb sequences",
                   "an over-long but terminated varint may be skipped or rejected (the documentation leaves it open)"])


def plan_C12(ctx):
    return codec_family(ctx, 6000, 25000, mc_cfgs_quick=("both", "pa"), rnd_cfg="mix")


PLANS = {"C07": plan_C07, "C20": plan_C20, "C19": plan_C19, "C17": plan_C17, "C16": plan_C16, "C13": plan_C13, "C15": plan_C15, "C08": plan_C08, "C04": plan_C04, "C06": plan_C06, "C11": plan_C11, "C03": plan_C03, "C10": plan_C10, "C18": plan_C18, "C12": plan_C12, "C01": plan_C01, "C02": plan_C02, "C05": plan_C05, "C09": plan_C09, "C14": plan_C14}
MODULES = {k: "TraceCodec" for k in PLANS}
MODULES["C18"] = "TracePrim"
MODULES["C03"] = MODULES["C10"] = "TraceDecode"
MODULES["C06"] = MODULES["C11"] = MODULES["C17"] = MODULES["C19"] = "TraceSystem"
MODULES["C04"] = "TraceHostile"
MODULES["C07"] = "TraceSched"
MODULES["C20"] = "TraceTag"
MODULES["C08"] = "TraceTypes"
MODULES["C15"] = "TraceJSONOut"
