"""Shared machinery of the checks: build the harness against /repo, run TLC (model checking and
trace judging, sharded over the cores), parse verdicts, confirm rejections by solo replays,
classify against known findings, write evidence."""
import json, os, re, shutil, subprocess, sys, time, hashlib, concurrent.futures as cf

ROOT = os.path.dirname(os.path.dirname(os.path.abspath(__file__)))
SPEC = os.path.join(ROOT, "spec")
REPO = os.environ.get("VERIF_REPO", "/repo")
JAR = "/opt/veriftools/tla/tla2tools.jar:/opt/veriftools/tla/CommunityModules-deps.jar"
NCPU = os.cpu_count() or 4
GOENV = dict(os.environ, GOFLAGS="-mod=mod", GOPROXY="off", GOSUMDB="off", GOTOOLCHAIN="local", CGO_ENABLED="0")


def tlc_brief(out):
    """The informative part of a failed TLC run: error lines first, then the tail, never the emitted cases or states."""
    lines = [l[:300] for l in out.splitlines() if not l.startswith('<<"CASE"') and not l.startswith("/\\") and not l.startswith("  ")]
    errs = [l for l in lines if re.search(r"Error|violated|Attempted|exception|not a legal|Unknown|undefined|line \d+, col", l)]
    return "\n".join(errs[:25] + ["..."] + lines[-12:])


class Broken(Exception):
    """The machinery itself failed (exit 2): never a verdict about the code."""


def log(*a):
    print(*a, file=sys.stderr, flush=True)


def mkwork(tag):
    d = os.path.join(ROOT, ".work", "%s-%d" % (tag, os.getpid()))
    shutil.rmtree(d, ignore_errors=True)
    os.makedirs(d)
    return d


def build_harness(work, race=False):
    """Copies the harness module into the work dir and builds it against /repo's working tree with -tags verif."""
    src = os.path.join(ROOT, "harness")
    dst = os.path.join(work, "harness")
    os.makedirs(work, exist_ok=True)
    shutil.copytree(src, dst, ignore=shutil.ignore_patterns("go.sum"))
    gomod = open(os.path.join(dst, "go.mod")).read().replace("=> /repo", "=> " + REPO)
    open(os.path.join(dst, "go.mod"), "w").write(gomod)
    shutil.copy(os.path.join(REPO, "go.sum"), os.path.join(dst, "go.sum"))
    out = os.path.join(work, "pvh-race" if race else "pvh")
    cmd = ["go", "build", "-tags", "verif", "-o", out]
    env = dict(GOENV)
    if race:
        cmd.insert(2, "-race")
        env["CGO_ENABLED"] = "1"
    cmd.append("./cmd/pvh")
    r = subprocess.run(cmd, cwd=dst, env=env, capture_output=True, text=True)
    if r.returncode != 0:
        raise Broken("harness build failed:\n" + r.stdout + r.stderr)
    return out


def run(cmd, timeout=None, cwd=None, env=None, check=True):
    r = subprocess.run(cmd, cwd=cwd, env=env or dict(GOENV, **{k: v for k, v in os.environ.items() if k.startswith("PVH_")}),
                       capture_output=True, text=True, timeout=timeout)
    if check and r.returncode != 0:
        raise Broken("command failed (%d): %s\n%s\n%s" % (r.returncode, " ".join(cmd), r.stdout[-2000:], r.stderr[-2000:]))
    return r


STAT_RE = re.compile(r"(\d+) states generated, (\d+) distinct states found")


def tla_literal(x):
    """JSON value -> TLA+ literal (records need identifier keys)."""
    if isinstance(x, bool):
        return "TRUE" if x else "FALSE"
    if isinstance(x, int):
        return str(x)
    if isinstance(x, str):
        return '"' + x.replace("\\", "\\\\").replace('"', '\\"') + '"'
    if isinstance(x, list):
        return "<<" + ", ".join(tla_literal(e) for e in x) + ">>"
    if isinstance(x, dict):
        if not x:
            return "<<>>"
        return "[" + ", ".join("%s |-> %s" % (k, tla_literal(v)) for k, v in x.items()) + "]"
    raise Broken("cannot convert %r to a TLA+ literal" % (x,))


def tlc(work, module, cfg, name=None, workers=1, timeout=3600, extra=(), heap="4g", simulate=None, defs=""):
    """Runs TLC on `module` (a module in spec/) with the given cfg text. Returns (stdout, stats)."""
    name = name or ("R_" + module + "_" + hashlib.md5((cfg + str(extra) + str(simulate)).encode()).hexdigest()[:8])
    d = os.path.join(work, name)
    os.makedirs(d, exist_ok=True)
    open(os.path.join(d, name + ".tla"), "w").write("---- MODULE %s ----\nEXTENDS %s\n%s\n====\n" % (name, module, defs))
    open(os.path.join(d, name + ".cfg"), "w").write(cfg)
    cmd = ["java", "-Xss512m", "-Xmx" + heap, "-XX:+UseParallelGC", "-DTLA-Library=" + SPEC, "-cp", JAR, "tlc2.TLC",
           "-workers", str(workers), "-metadir", os.path.join(d, "meta")]
    if simulate:
        cmd += ["-simulate", simulate]
    cmd += list(extra) + [name]
    t0 = time.time()
    try:
        r = subprocess.run(cmd, cwd=d, capture_output=True, text=True, timeout=timeout)
    except subprocess.TimeoutExpired:
        raise Broken("TLC timed out on %s after %ds" % (module, timeout))
    out = r.stdout
    shutil.rmtree(os.path.join(d, "meta"), ignore_errors=True)
    stats = {"generated": 0, "distinct": 0, "wall": time.time() - t0, "rc": r.returncode}
    m = None
    for m in STAT_RE.finditer(out):
        pass
    if m:
        stats["generated"], stats["distinct"] = int(m.group(1)), int(m.group(2))
    return out, stats


def tlc_ok(out, stats, what):
    """A TLC run that did not finish cleanly is broken machinery unless it reports an invariant violation."""
    if "Error:" in out or stats["rc"] not in (0,):
        raise Broken("TLC failed on %s (rc=%s):\n%s" % (what, stats["rc"], out[-3000:]))


VERDICT_RE = re.compile(r'^"VERDICT (-?\d+) (C\d+) (.*)"$', re.M)
JUDGED_RE = re.compile(r'<<"JUDGED", (\d+), (\d+)>>')


PART_BYTES = 10 << 20      # a TLC process deserialises its whole part: keep parts small, run NCPU of them at a time


def split_file(path, n, work, tag):
    """Round-robin split (expensive cases cluster in the generators' output) into at least n parts of at most ~PART_BYTES."""
    total, size = 0, os.path.getsize(path)
    with open(path, "rb") as f:
        for _ in f:
            total += 1
    n = max(1, min(max(n, -(-size // PART_BYTES)), total))
    paths = [os.path.join(work, "%s.part%d.ndjson" % (tag, i)) for i in range(n)]
    outs = [open(p, "wb") for p in paths]
    with open(path, "rb") as f:
        for i, line in enumerate(f):
            outs[i % n].write(line)
    for o in outs:
        o.close()
    return (paths if total else []), total


def judge(work, module, trace, env_file, open_findings=(), shards=None, tag="j", timeout=3600, extra_consts="", defs=""):
    """Judges a trace file with the trace specification `module`. Returns (verdicts, stats)."""
    shards = shards or NCPU
    parts, total = split_file(trace, shards, work, tag)
    if total == 0:
        return [], {"events": 0, "generated": 0, "distinct": 0}
    of = "{" + ", ".join('"%s"' % f for f in sorted(open_findings)) + "}"

    def one(i_p):
        i, p = i_p
        cfg = ('CONSTANTS\n  TraceFile = "%s"\n  EnvFile = "%s"\n  Env <- EnvDef\n  OpenFindings = %s\n%s'
               'SPECIFICATION Spec\nINVARIANT Finished\nCHECK_DEADLOCK FALSE\n' % (p, env_file, of, extra_consts))
        out, st = tlc(work, module, cfg, name="%s_%s_%d" % (tag, module, i), workers=1, timeout=timeout, heap="3g", defs=defs)
        return out, st

    verdicts, gen, dist, judged = [], 0, 0, 0
    with cf.ThreadPoolExecutor(max_workers=NCPU) as ex:
        for out, st in ex.map(one, enumerate(parts)):
            m = JUDGED_RE.search(out)
            if not m or "Error:" in out or st["rc"] != 0:
                raise Broken("trace judging failed (%s):\n%s" % (module, tlc_brief(out)))
            judged += int(m.group(1))
            gen += st["generated"]
            dist += st["distinct"]
            mine = [(int(v.group(1)), v.group(2), v.group(3)) for v in VERDICT_RE.finditer(out)]
            if int(m.group(2)) > 0 and not mine:
                raise Broken("the judge counted %s rejected events but no verdict line was parsed:\n%s" % (m.group(2), out[-1500:]))
            verdicts += mine
    if judged != total:
        raise Broken("judged %d of %d events" % (judged, total))
    return verdicts, {"events": total, "generated": gen, "distinct": dist}


def load_known():
    """known_findings.jsonl: one JSON object per line: {id, status: open|fixed, property, what, ...}."""
    out = []
    p = os.path.join(ROOT, "known_findings.jsonl")
    if os.path.exists(p):
        for l in open(p):
            l = l.strip()
            if l:
                out.append(json.loads(l))
    return out


def open_ids(known):
    return [k["id"] for k in known if k.get("status") == "open"]


def write_evidence(pid, tier, seed, coverage, wall, violations, assumptions, level="model_checking"):
    if os.environ.get("VERIF_REPO"):
        return      # development run against a scratch copy of the repository: never evidence
    os.makedirs(os.path.join(ROOT, "evidence"), exist_ok=True)
    ev = {"property_id": pid, "tier": tier, "seed": seed, "level": level, "coverage": coverage,
          "assumptions": assumptions, "wall_s": round(wall, 1), "violations": violations}
    tmp = os.path.join(ROOT, "evidence", pid + ".json.tmp")
    json.dump(ev, open(tmp, "w"), indent=1)
    os.replace(tmp, os.path.join(ROOT, "evidence", pid + ".json"))


def typesdb(pvh, work):
    p = os.path.join(work, "env.json")
    r = run([pvh, "typesdb"])
    open(p, "w").write(r.stdout)
    return p
