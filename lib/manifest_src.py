HOOK_COMMITS = ["bcee830", "e3854df", "f0d9fa9"]
NOT_APPLICABLE = {}
TB = ("Trusted base: TLC; the TLA+ model of the documented format (spec/Plenc*.tla, written from README / wire.go comments / golden files, "
      "cross-checked by its own design invariants); the harness's format-agnostic reflect builder/projector.")
CHECKS = {
 "C01": {"technique": "TLA+ reference model (Encode/Decode/Normalise) model-checked with TLC + trace validation of real Marshal/Unmarshal executions",
         "text": "TLC checks on the model alone that the documented format is uniquely decodable and loses only the documented normalisations "
                 "(MCCodec: every kind in every position with every boundary value); the same enumerated cases and seeded random types/values "
                 "(sessions of 50 cases sharing one Plenc instance) are executed on the real library and every execution is judged by TLC "
                 "(TraceCodec: back = Normalise(v), values only), for both calling conventions (pointer and by value). Exhaustive within the stated small scope, sampled beyond it.",
         "note": TB + " Scope decisions: top-level type is not a pointer/null type; ProtoCompatibleArrays top level is a struct."},
 "C02": {"technique": "independent TLA+ encoder + order-insensitive byte matcher, TLC design check + trace validation of real Marshal output",
         "text": "The model's Encode is an encoder written independently of the codecs; TLC checks walkability/matcher soundness on the enumerated universe, "
                 "then judges the real Marshal bytes of every enumerated and random case byte-for-byte up to map entry order (EncMatches).",
         "note": TB},
 "C05": {"technique": "codec laws recorded from the real codecs (Size/Append/Read, tagged and untagged) and judged by TLC against framing rules",
         "text": "For every case the harness records the code's own Size/Append/Read results for the top-level codec and every field codec; "
                 "TLC judges size=len, tagged = tag.varint(len).body (one frame per element in the repeated form), consumed = len, prefix kept, "
                 "and that every Marshal output walks to its exact end.",
         "note": TB + " Values containing multi-entry maps are compared on header and length only (iteration order differs between two Append calls)."},
 "C09": {"technique": "presence-aware TLA+ value model (nil/valid distinguished) judged on real round trips + frame walk + descriptor flags",
         "text": "Presence is part of the model's values; TLC judges every real round trip of the presence sub-universe (pointer fields, pointer map values, "
                 "pointer slices, the five null types, zero and empty pointees, zero keys) and of random types: nil-ness / Valid equal, pointee equal, "
                 "zero plain fields leave no frame at any struct depth, Descriptor.ExplicitPresence set exactly for pointer / null positions.",
         "note": TB + " Double presence (**T, *null.X) and null types as slice elements have no representation in the format and are outside the generated universe."},
 "C12": {"technique": "independent protobuf wire reader in TLA+ (ProtoWalk) + cross-configuration decode, TLC design invariants OptionLocal / CrossRead",
         "text": "TLC checks on the model that each option changes only its own encodings and that default mode reads the repeated form; real bytes of "
                 "all four configurations are judged by EncMatches, by a protobuf walker restricted to wire types 0/1/2/5 along the message structure, "
                 "and the bytes of ProtoCompatibleArrays instances are decoded by a default-array instance and compared with the value.",
         "note": TB + " Precondition of the statement: map fields tagged proto. Open finding F19 (null.Time keeps zig-zag) is named in the spec."},
 "C14": {"technique": "TLA+ DescriptorOf(type) compared attribute-by-attribute with the real Codec.Descriptor() of every generated type",
         "text": "For every enumerated and random type definition (json tag forms, all tag options, named types, unexported / '-' fields, nesting) the "
                 "real descriptor is projected and TLC compares index, name, field type, struct type name, explicit presence, logical types and element "
                 "count recursively with the model's DescriptorOf.",
         "note": TB + " Recursive types are excluded here: Descriptor() of a recursive type does not return (finding F16); map-entry synthetic names are not compared."},
 "C18": {"technique": "TLA+ limb-arithmetic model of varint / zig-zag / tag / skip, exhaustive boundary universe in TLC + trace validation of plenccore calls",
         "text": "TLC checks on the model that append/read/size agree, zig-zag is a bijection with the k-byte property, tags round trip and Skip of a well-formed "
                 "field is exactly its length for every boundary value and every canonical limb sequence up to the bound; the same values, plus every truncation / "
                 "over-long / huge-length mutation of well-formed fields and random 64-bit values and byte strings, go through the real plenccore functions and "
                 "TLC judges each result (error or in-range length allowed by SkipAllowed, never a panic / hang / over-run).",
         "note": TB + " Exhausting all 2^32 values is beyond TLC (about 7k judged events/s per worker): boundary classes are exhaustive, the rest is random."},
 "C03": {"technique": "TLA+ Decode (frame walk, skip, merge) checked against an independent Project definition in TLC + trace validation of cross-type decodes",
         "text": "MCEvolve: for S over one kind per wire type / container form and S' obtained by removal, reorder, rename and addition (top level, nested, in a "
                 "slice) TLC checks Decode(S', Encode(S,v), prior) = Project(...) on the model; the same cases and random derived types are executed on the "
                 "real library (marshal as S, unmarshal into a pre-populated S') and TLC judges the result against Decode of the recorded bytes and prior.",
         "note": TB},
 "C10": {"technique": "TLA+ Decode(config, type, bytes, prior) as the step relation of Unmarshal, trace validation of histories on shared instances",
         "text": "Unmarshal into pre-populated targets (longer / shorter slices with stale elements beyond len, overlapping map keys, non-nil pointers, nested) "
                 "is judged against the model's merge rules; sessions of 50 calls share one Plenc instance so pools, scratch keys, interning tables and "
                 "registries carry history, and ordinary round trips into fresh variables on such instances must equal the history-free result; readers that read the repeated "
                 "form through an untagged slice field, and JSON-any containers decoded into variables already holding an empty / shorter / longer container.",
         "note": TB + " Nil-vs-empty of a re-used slice that ends up empty is left open by the statement and not compared."},
 "C06": {"technique": "TLA+ state machine PlencSystem (buffers, variables, API calls) model-checked with TLC; generated histories replayed on the real library and validated call by call (TraceSystem)",
         "text": "TLC checks the action properties AppendOnly / Frame* on PlencSystem; all histories of 3 calls over the catalogue (values that encode to nothing, "
                 "pointer-shaped by-value shapes at depth 1-3, 128+-byte elements, narrow named kinds, plus seeded random catalogue items), a sweep of every spare capacity 0..460 x prefix, and random 6..12-call histories on two buffers "
                 "are executed on one Plenc instance with persistent source variables rewritten in place; after every call TLC compares the returned bytes and all "
                 "live buffers with the specification's step function (one TLC state per call, re-synchronising after a rejection).",
         "note": TB + " Catalogue maps have a single entry and random catalogue items contain no maps, so byte equality is exact."},
 "C11": {"technique": "frame conditions of the PlencSystem actions validated on replayed histories + direct memory-overlap observation in the harness; single calls on random types and scheduled concurrent interned decodes judged by TraceCodec / TraceSched",
         "text": "Values are immutable in the specification, so every action changes only its own target; the harness scrambles the marshalled value in place after "
                 "every Marshal, overwrites input buffers (scribble) after Unmarshal, re-reads every live buffer and variable after every call, and additionally reports "
                 "whether memory reachable from a decoded value (incl. spare capacity) overlaps the input buffer or the returned bytes overlap the value; TLC judges all of it. "
                 "In addition every Marshal of a few thousand random types must leave its argument as it was, and goroutines decoding through one interning codec under "
                 "every bounded schedule overwrite their input buffers afterwards and re-read what they decoded.",
         "note": TB + " The overlap observer walks strings, slices (with capacity), pointers, maps and structs through reflect/unsafe; it is an observation on the executions the model drives."},
 "C04": {"technique": "TLC-enumerated input space + design invariants of a total decoder (progress, bounded skip); real decoders observed on every enumerated and mutated input, judged by TraceHostile",
         "text": "TLC enumerates every byte string up to length 3 (quick) / 4-5 (thorough) over a representative alphabet, checks on the model that the schema-less walk "
                 "makes progress and never reports more than there is, and emits strings and 30 target types; every (string, target, Unmarshal | Descriptor.Read) "
                 "combination, the same strings embedded as the body of an unknown field inside a slice element / nested struct / map value, plus byte-wise mutations (truncation, replacement, huge and wrap-around lengths, deletions, repeated stretches) of valid encodings of random types read by the writer's type or by a derived reader type, is executed in isolated workers (4 GiB address space, 10 s budget) and TLC "
                 "judges each outcome: value or error with a message, no panic / fault / timeout, input untouched, allocation within 1 MiB + 4 KiB per input byte.",
         "note": "Real-code observation on model-generated inputs (DESIGN.md section 8): an out-of-bounds read through unsafe that neither faults nor changes the outcome is invisible. " + TB},
 "C08": {"technique": "TLA+ classification of type definitions (accept / reject / either) + codec-level model, TLC-enumerated definition universe replayed on CodecForType and judged",
         "text": "TLC enumerates field kind x position x tag string x exported-ness (about 25k definitions, incl. every unsupported kind and the null types in every position, duplicate "
                 "indexes at word-size boundaries, indexes beyond the largest field number, and recursive definitions that must fail on an unsupported field or a duplicate index) and checks the classification's own sanity; each definition goes to the real CodecForType: "
                 "must-reject -> an error with a message, never a panic; a returned codec is used on the zero and a populated value into a pre-populated target "
                 "and judged with the model (documented bytes for must-accept definitions, value-level round trip otherwise; skipped fields neither encoded nor "
                 "written; a one-byte witness field sits right behind the field under test); after a rejection the types possibly published on the way are requested again "
                 "and used, and anything that contains the rejected type must be rejected as well.",
         "note": TB + " The abstract reading of each tag string is part of the specification's table (strconv.Atoi semantics)."},
 "C15": {"technique": "implementation-shaped TLA+ state machine of JSONOutput (stack / depth / inField, token output) with a token-level parser, model-checked; real outputs parsed and compared with the model's call tree",
         "text": "TLC explores every well-nested call sequence up to a bound on output tokens (incl. Reset at any point) and checks Parse(out) = call tree, stack = open "
                 "containers, Reset = Init; the same sequences, exhaustive string / name universes (all bytes, pairs, triples over a 13-class alphabet), integer and "
                 "float boundaries and random deep call trees on outputters re-used after complete and abandoned documents are executed on the real JSONOutput; "
                 "TLC compares the encoding/json parse of each output with TreeOf(calls) leaf by leaf.",
         "note": "Trusted base: TLC; encoding/json as the independent JSON parser; the harness's tree projection. Strings that are not valid UTF-8 are only required to give a valid document."},
 "C13": {"technique": "TLA+ JSON data-model matcher (JMatch) over the parse tree of real Descriptor.Read + JSONOutput output, for three ways of obtaining the descriptor",
         "text": "For every enumerated and random (type, value) the marshalled bytes are rendered through the descriptor taken directly, after a plenc round trip and "
                 "after an encoding/json round trip; the output must be valid JSON and TLC matches its encoding/json parse against the model's JSON image of the "
                 "value: objects keyed by field name with omitted fields absent, arrays element for element, string-keyed maps as objects, other maps as key/value "
                 "lists, pointers as their target, times as the same instant, integers exact, floats bit-exact.",
         "note": TB + " Preconditions of the statement are observed by the harness (finite floats, years 1..9999, UTF-8); open findings F18 (repeated form), F20 (negative narrow flat ints), "
                 "F21 (ProtoCompatibleTime) are named deviations in the spec; recursive types have no finite descriptor (F16)."},
 "C16": {"technique": "TLC-enumerated JSON-model trees with model round trip / skippability invariants; real codec round trips, skips and descriptor renderings judged by the trace specs",
         "text": "TLC enumerates every JSON-model tree of depth <= 2, width <= 2 over the leaf kinds (nil, bools, ints incl. 2^62, floats, strings incl. empty, json.Number, "
                 "nil and empty containers, empty keys) and checks on the model that decode(encode(x)) = x up to nil/empty and that the encoding is skipped exactly; each "
                 "tree is marshalled by the real JSONMapCodec / JSONArrayCodec at top level, as a struct field between two others and as an unknown field, and "
                 "TLC judges value, bytes (members in any order), codec laws and the descriptor-driven JSON rendering.",
         "note": TB},
 "C17": {"technique": "PlencSystem with per-item instance configurations (options, marker-codec registrations, package-level functions); histories interleaving instances replayed and validated by TraceSystem",
         "text": "The model's Encode reads the configuration of the instance a call is made on and nothing else (design invariant ScopedDiffer shows the configurations "
                 "really differ on the catalogue); histories interleave Marshal / Unmarshal of the same types through instances with different ProtoCompatible* "
                 "options, a marker codec registered plainly / under a tag for a named type (as value, field, pointer target, slice element, map key, map value), a "
                 "codec registered under a tag for time.Time (value and pointer field) and the package-level functions; TLC compares every call's bytes and "
                 "decoded values with the configuration-specific model.",
         "note": TB + " Registration happens before first use of the containing type (the documented usage)."},
 "C19": {"technique": "PlencSystem without any notion of interning as the specification; histories over interned / plain twin / null.String / two-field types on re-used, overwritten buffers validated by TraceSystem",
         "text": "The specification has no interning at all, so transparency is conformance: TLC checks on the model that the option does not change the encoding, then "
                 "validates every call of exhaustive 3-call and random 6..12-call histories over new, repeated, empty, same-length, prefix-sharing, binary, 70- and 128-byte "
                 "strings decoded from one buffer that is re-marshalled in place and scribbled between calls: decoded values equal the model's, every earlier decoded "
                 "variable is re-read after every call, and no decoded string may overlap the input buffer's memory.",
         "note": TB + " The concurrent part (several goroutines decoding into one interned field) is exercised by the C07 check."},
 "C20": {"technique": "TLA+ relation Accepts(pre, flags, post) over abstract Go files, model-checked for satisfiability / idempotence; the real plenctag binary run on rendered files and judged against the relation",
         "text": "TLC enumerates every abstract struct of up to 2 fields over 128 field variants and the 8 flag combinations and checks that the relation is satisfiable by a "
                 "reference rewriting, idempotent and really forbids touching existing tags; the structs are rendered (top-level, generic, function-local, nested anonymous) "
                 "and the plenctag binary built from the working tree is run in write mode, stdout mode and a second time; TLC judges the re-parsed result against the "
                 "relation plus: only tags changed, gofmt-stable, type-checks, plenc builds a codec for every tagged struct, second run changes nothing, no crash.",
         "note": "Trusted base: TLC; go/parser, go/format, go/types and reflect.StructTag in the harness. Only files expressible in the abstract struct model are varied (DESIGN.md section 8). "
                 "Open finding F14b (multi-name declarations) is a named deviation."},
 "C07": {"technique": "TLA+ models of codec construction / publication (CodecBuild), interning (Intern) and the key scratch pool (KeyPool) model-checked over all interleavings; schedules replayed deterministically on the real library through verif yield hooks, results judged against the sequential specification and the hook logs validated action by action against CodecBuild / Intern (trace validation); race detector as an observer",
         "text": "TLC checks NoIncompleteUse, RegistryClosed / RegistryComplete, SameResult and termination for every interleaving of 2-3 processes building codecs for "
                 "recursive, mutually recursive, nested and failing type families on a shared registry (and rejects, as a negative control, the protocol that published "
                 "wrappers during a build), and Transparent / TableSound / NoViews / Monotone for interning; thousands of preemption-bounded and random schedules over "
                 "ten families of concurrent first uses (incl. struct-keyed map decodes sharing the key scratch pool and interned fields) are replayed on fresh instances "
                 "with real goroutines parked at the hooks, every goroutine's result judged by TLC against the sequential specification, and the recorded (goroutine, yield point) "
                 "log of every schedule validated as a behaviour of CodecBuild (one action per segment; a lookup that hits where the model says the codec is not yet visible is a "
                 "rejection), of Intern (lock-free lookup, lock, re-check, publication) and of KeyPool (a scratch buffer handed to a decoder while another still holds it is a rejection); as a vacuity control the same logs must be rejected by the model of the pre-repair "
                 "publication protocol; a sample of the schedules and a free-running stress run under the race detector.",
         "note": TB + " Atomicity is decided at the granularity of the yield hooks (commit bcee830, build tag verif); memory-model races are whatever the race detector reports on the driven executions."},
}
