HOOK_COMMITS = []
NOT_APPLICABLE = {}
TB = ("Trusted base: TLC; the TLA+ model of the documented format (spec/Plenc*.tla, written from README / wire.go comments / golden files, "
      "cross-checked by its own design invariants); the harness's format-agnostic reflect builder/projector.")
CHECKS = {
 "C01": {"technique": "TLA+ reference model (Encode/Decode/Normalise) model-checked with TLC + trace validation of real Marshal/Unmarshal executions",
         "text": "TLC checks on the model alone that the documented format is uniquely decodable and loses only the documented normalisations "
                 "(MCCodec: every kind in every position with every boundary value); the same enumerated cases and seeded random types/values "
                 "(sessions of 50 cases sharing one Plenc instance) are executed on the real library and every execution is judged by TLC "
                 "(TraceCodec: back = Normalise(v), values only). Exhaustive within the stated small scope, sampled beyond it.",
         "note": TB + " Scope decisions: top-level type is not a pointer/null type; ProtoCompatibleArrays top level is a struct."},
 "C02": {"technique": "independent TLA+ encoder + order-insensitive byte matcher, TLC design check + trace validation of real Marshal output",
         "text": "The model's Encode is an encoder written independently of the codecs; TLC checks walkability/matcher soundness on the enumerated universe, "
                 "then judges the real Marshal bytes of every enumerated and random case byte-for-byte up to map entry order (EncMatches).",
         "note": TB},
 "C05": {"technique": "codec laws recorded from the real codecs (Size/Append/Read, tagged and untagged) and judged by TLC against framing rules",
         "text": "For every case the harness records the code's own Size/Append/Read results for the top-level codec and every field codec; "
                 "TLC judges size=len, tagged = tag.varint(len).body (one frame per element in the repeated form), consumed = len, prefix kept, "
                 "and that every Marshal output walks to its exact end.",
         "note": TB + " Values containing multi-entry maps are compared on header and length only (iteration order differs between two Append calls)."},
}
