"""The codec family: C01 C02 C05 (and C09 C11 C12 views) share the 'codec' events, the MCCodec design
check / case generator and the TraceCodec judge."""
import json, os, re, time, hashlib
import vlib
from vlib import Broken, log

CFGS = {
    "default": {"protoTime": False, "protoArrays": False, "null": True, "jsonany": False, "bq": True},
    "pt": {"protoTime": True, "protoArrays": False, "null": True, "jsonany": False, "bq": False},
    "pa": {"protoTime": False, "protoArrays": True, "null": True, "jsonany": False, "bq": False},
    "both": {"protoTime": True, "protoArrays": True, "null": True, "jsonany": False, "bq": False},
}
CFGS["jsonany"] = dict(CFGS["default"], jsonany=True)
CASE_RE = re.compile(r'^<<"CASE", (".*")>>$')


def mc_generic(work, module, consts, invariants, timeout=3000, spec="Spec"):
    """Runs a design-check / generator module; returns the emitted cases and TLC's statistics."""
    cfg = "CONSTANTS\n%sSPECIFICATION %s\nINVARIANTS %s EmitCase\nCHECK_DEADLOCK FALSE\n" % (consts, spec, invariants)
    out, st = vlib.tlc(work, module, cfg, workers=vlib.NCPU, timeout=timeout, heap="8g")
    if "is violated" in out or "Error:" in out or st["rc"] != 0:
        brief = vlib.tlc_brief(out)
        raise Broken("design check %s failed - the model itself violates its invariants or TLC broke:\n%s" % (module, brief))
    cases = []
    for line in sorted(l for l in out.splitlines() if l.startswith('<<"CASE"')):      # TLC's workers print in any order: ids must not depend on it
        m = CASE_RE.match(line)
        if m:
            cases.append(json.loads(json.loads(m.group(1))))
    return cases, st


def mc_codec(work, cfgs, emit, invariants="RoundTrip Walkable MatcherSound ProtoTop NormIdem OptionLocal CrossRead", module="MCCodec", extra="",
             sweep="SweepQuick"):
    extra = "  LenSweep <- %s\n" % sweep + extra
    cfg = ('CONSTANTS\n  Env <- MCEnv\n  Cfgs = {%s}\n  Emit = %s\n%sSPECIFICATION Spec\nINVARIANTS %s EmitCase\nCHECK_DEADLOCK FALSE\n'
           % (", ".join('"%s"' % c for c in cfgs), "TRUE" if emit else "FALSE", extra, invariants))
    out, st = vlib.tlc(work, module, cfg, workers=vlib.NCPU, timeout=3000, heap="8g")
    if "is violated" in out or "Error:" in out or st["rc"] != 0:
        brief = vlib.tlc_brief(out)
        raise Broken("design check %s failed - the model itself violates its invariants or TLC broke:\n%s" % (module, brief))
    cases = []
    for line in sorted(l for l in out.splitlines() if l.startswith('<<"CASE"')):
        m = CASE_RE.match(line)
        if m:
            cases.append(json.loads(json.loads(m.group(1))))
    return cases, st


def write_cases(cases, path, idbase=0):
    with open(path, "w") as f:
        for i, c in enumerate(cases):
            c = dict(c)
            c["id"] = idbase + i
            if "cfg" not in c:
                c["cfg"] = CFGS[c.get("cfgname", "default")]
            f.write(json.dumps(c) + "\n")
    return len(cases)


def gen_random(pvh, work, n, seed, cfg="mix", depth=3, idbase=1000000, kind="codec", tag="rnd"):
    p = os.path.join(work, "%s_cases.ndjson" % tag)
    vlib.run([pvh, "gen", "-kind", kind, "-n", str(n), "-seed", str(seed), "-cfg", cfg, "-depth", str(depth), "-idbase", str(idbase), "-o", p])
    return p


def run_cases(pvh, cases_path, work, tag, budget="10s", workers=None):
    out = os.path.join(work, tag + "_trace.ndjson")
    cmd = [pvh, "run", "-in", cases_path, "-out", out, "-budget", budget]
    if workers:
        cmd += ["-workers", str(workers)]
    vlib.run(cmd, timeout=7200)
    with open(out) as f:
        for line in f:
            if '"kind":"harness-error"' in line:
                raise Broken("the harness could not build a case: " + line[:600])
    return out


def trivial(e):
    """Non-codec events: trivial = the all-empty input."""
    ev = e.get("ev")
    if ev == "prim":
        return not e.get("u") and not e.get("data")
    if ev in ("sched", "stress"):
        return len(set(e.get("schedule", [0, 1]))) < 2
    if ev == "tag":
        return not any(f["plenc"]["form"] == "none" for st in e.get("structs", []) for f in st["fields"])
    if ev == "jsonout":
        return len(e.get("calls", [])) <= 1
    if ev == "typedef":
        return not e.get("T", {}).get("f") and e.get("T", {}).get("k") == "struct"
    if ev == "hostile":
        return not e.get("input")
    if ev == "hist":
        return not any(o.get("ret") for o in e.get("out", {}).get("steps", []))
    return False


def nontrivial_stats(trace_paths):
    """Counts events and DISTINCT non-trivial cases: distinct (type, value) pairs whose value is not the
    type's all-zero value (measured as: the real encoding is non-empty or the value differs from what an
    empty input decodes to)."""
    seen, n, samples = set(), 0, []
    for p in trace_paths:
        for line in open(p):
            e = json.loads(line)
            n += 1
            key = hashlib.md5(json.dumps({k: v for k, v in e.items() if k not in ("id", "out", "sess", "u_")}, sort_keys=True).encode()).hexdigest()
            if e.get("ev") in ("codec", "evolve"):
                triv = not e.get("out", {}).get("bytes")
            else:
                triv = trivial(e)
            if not triv:
                seen.add(key)
            if len(samples) < 3 and not triv and len(line) < 1500:
                if e.get("ev") == "evolve":
                    samples.append({k: e[k] for k in ("id", "S", "S2", "v", "prior")})
                elif e.get("ev") == "codec":
                    samples.append({"id": e["id"], "cfg": {k: v for k, v in e["cfg"].items() if v}, "T": e["T"], "v": e["v"],
                                    "bytes": e["out"].get("bytes")})
                else:
                    samples.append(e)
    return n, len(seen), samples
