"""Families of concurrent first uses and preemption-bounded schedules for the 'sched' events (C07)."""


def I(n):
    mag, m = [], abs(n)
    while m > 0:
        mag.append(m % 128)
        m //= 128
    return {"neg": n < 0, "mag": mag}


def S(s):
    return list(s.encode())


def sl(es):
    return {"nil": es is None, "e": es or []}


def mp(kvs):
    return {"nil": kvs is None, "m": [[k, v] for k, v in (kvs or [])]}


def ptr(v):
    return {"nil": v is None, "v": v if v is not None else []}


def ref(n):
    return {"k": "ref", "n": n}


def fd(name, i, t, opt=""):
    return {"i": i, "n": name, "gn": name, "enc": True, "opt": opt, "tag": "", "t": t}


def st(fs):
    return {"k": "struct", "name": "", "f": fs}


INT = {"k": "int", "w": 64, "g": "int"}
STR = {"k": "string"}
# values of the static recursive types (harness/internal/abs/static.go)
recs = lambda v, kids: [I(v), sl(kids)]
recp = lambda s, nxt: [S(s), ptr(nxt)]
recm = lambda v, m: [I(v), mp(m)]
RECS = recs(1, [recs(2, None), recs(0, [recs(3, None)])])
RECP = recp("a", recp("", recp("c", None)))
RECM = recm(1, [(S("k"), recm(2, None))])
MUTB = [sl([[ptr(None), I(4)]]), S("s")]
MUTA = [ptr(MUTB), I(9)]
RECPS = [sl([ptr([sl(None), [0, 0, 0, 0, 0, 0, 240, 63]]), ptr(None)]), [0] * 8]
NKEY = lambda a, b: [I(a), S(b)]
KMAP = {"k": "map", "key": ref("NKey"), "val": INT}
ISTR = st([fd("S", 1, STR, "intern"), fd("N", 2, INT)])


def families(quick):
    fams = [
        ("rec-slice", [("marshal", ref("RecS"), RECS), ("marshal", {"k": "slice", "e": ref("RecS")}, sl([RECS, recs(5, None)]))]),
        ("rec-slice-codec", [("codec", {"k": "slice", "e": ref("RecS")}, sl(None)), ("marshal", ref("RecS"), RECS)]),
        ("rec-ptr", [("marshal", ref("RecP"), RECP), ("marshal", st([fd("P", 1, {"k": "ptr", "e": ref("RecP")})]), [ptr(RECP)])]),
        ("mutual", [("marshal", ref("MutA"), MUTA), ("marshal", ref("MutB"), MUTB)]),
        ("rec-map", [("marshal", ref("RecM"), RECM), ("unmarshal", ref("RecM"), RECM)]),
        ("rec-ptrslice", [("codec", ref("RecPS"), RECPS), ("marshal", ref("RecPS"), RECPS)]),
        ("same-type", [("marshal", st([fd("A", 1, st([fd("B", 1, {"k": "slice", "e": STR})])), fd("M", 2, {"k": "map", "key": ref("NKey"), "val": ref("NStruct")})]),
                        [[sl([S("x"), S("")])], mp([(NKEY(1, "a"), [I(3), S("b"), I(0), False])])])] * 2),
        ("key-scratch", [("unmarshal", KMAP, mp([(NKEY(1, "a"), I(1)), (NKEY(0, "b"), I(2)), (NKEY(7, ""), I(3))])),
                          ("unmarshal", KMAP, mp([(NKEY(5, ""), I(4)), (NKEY(6, "z"), I(5))]))]),
        # a decode that fails inside a map entry, then two decoders of the same map type: the scratch pool must not hand one key buffer to both
        ("key-scratch-after-error", [("corrupt", KMAP, mp([(NKEY(9, "q"), I(9))])),
                                     ("unmarshal", KMAP, mp([(NKEY(1, "a"), I(1)), (NKEY(0, "b"), I(2))])),
                                     ("unmarshal", KMAP, mp([(NKEY(5, ""), I(4)), (NKEY(6, "z"), I(5))]))]),
        ("intern-two", [("unmarshal", ISTR, [S("hat"), I(1)]), ("unmarshal", ISTR, [S("cat"), I(2)])]),
        ("intern-same", [("unmarshal", ISTR, [S("hat"), I(1)]), ("unmarshal", ISTR, [S("hat"), I(2)])]),
    ]
    if not quick:
        fams += [
            ("three-rec", [("marshal", ref("RecS"), RECS), ("marshal", {"k": "slice", "e": ref("RecS")}, sl([RECS])),
                           ("marshal", {"k": "map", "key": STR, "val": ref("RecS")}, mp([(S("k"), RECS)]))]),
            ("three-intern", [("unmarshal", ISTR, [S("hat"), I(1)]), ("unmarshal", ISTR, [S("cat"), I(2)]), ("unmarshal", ISTR, [S("hat"), I(3)])]),
        ]
    return fams


def schedules(nprocs, bound, rnd, nrandom):
    """All schedules with at most two preemptions (a steps of one, b of another, then everything to completion) + random ones."""
    out = []
    for first in range(nprocs):
        for second in range(nprocs):
            if second == first:
                continue
            for a in range(bound):
                for b in ([x for x in (0, 1, 2, 3, 5, 8, 13, 21, 34) if x < bound] if bound <= 40 else range(bound)):
                    out.append([first] * a + [second] * b)
    for _ in range(nrandom):
        out.append([rnd.randrange(nprocs) for _ in range(rnd.randint(5, 60))])
    return out


def cases(quick, rnd):
    out = []
    for name, procs in families(quick):
        for s in schedules(len(procs), 40 if quick else 60, rnd, 60 if quick else 1500):
            out.append({"ev": "sched", "family": name, "schedule": s,
                        "procs": [{"op": op, "T": t, "v": v} for (op, t, v) in procs]})
    return out
