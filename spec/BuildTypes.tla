------------------------------ MODULE BuildTypes ------------------------------
(* From abstract type definitions (PlencTypes) to the nodes of CodecBuild: a node   *)
(* is a (Go type, tag option) pair - the key of plenc's codec registry - and its     *)
(* definition says which other nodes codec construction asks for, in which order.   *)
(* This is Plenc.CodecForTypeRegistry's type switch, written from its documentation *)
(* and the yield hooks: pointers hand the tag option on to their target, slices and *)
(* maps ask for their parts without option, struct fields ask with the field's      *)
(* option ("intern" is not a registry option: it wraps the codec afterwards).       *)
EXTENDS PlencTypes

RECURSIVE TKey(_)
\* a canonical spelling of the Go type an abstract type stands for (unnamed types are identical when they are spelled alike)
TKey(T) ==
  CASE T.k = "ref" -> "ref:" \o T.n
    [] T.k \in {"int", "uint"} -> T.k \o ToString(T.w) \o (IF "g" \in DOMAIN T THEN T.g ELSE "")
    [] T.k = "null" -> "null:" \o T.of
    [] T.k = "ptr" -> "*" \o TKey(T.e)
    [] T.k = "slice" -> "[]" \o TKey(T.e)
    [] T.k = "map" -> "map[" \o TKey(T.key) \o "]" \o TKey(T.val)
    [] T.k = "struct" ->
         LET RECURSIVE fs(_)
             fs(j) == IF j > Len(T.f) THEN ""
                      ELSE T.f[j].gn \o ":" \o TKey(T.f[j].t) \o ":" \o ToString(T.f[j].i) \o ":" \o T.f[j].opt \o ":" \o T.f[j].n \o
                           (IF T.f[j].enc THEN ";" ELSE "-;") \o fs(j + 1)
         IN "struct{" \o fs(1) \o "}"
    [] OTHER -> T.k
NKey(T, tag) == TKey(T) \o "|" \o tag
Node(T, tag) == [key |-> NKey(T, tag), T |-> T, tag |-> tag]

Under(T) == IF T.k = "ref" THEN Env[T.n] ELSE T
Scalars == {"bool", "int", "uint", "f32", "f64", "string"}
Registered == {"bytes", "time", "null", "jsonobj", "jsonarr"}
\* the tag option a struct field's codec is requested with
FieldTag(f) == IF f.opt = "intern" THEN "" ELSE f.opt
EncFields(T) == SelectSeq(T.f, LAMBDA f : f.enc)
DupIndex(T) == LET fs == EncFields(T) IN \E a, b \in 1..Len(fs) : a < b /\ fs[a].i = fs[b].i

\* children of a node, in the order they are requested
Kids(n) == LET T == Under(n.T) IN
  CASE T.k = "ptr" -> IF Under(T.e).k = "map" THEN <<>> ELSE <<Node(T.e, n.tag)>>
    [] T.k = "slice" -> <<Node(T.e, "")>>
    [] T.k = "map" -> IF Under(T.val).k = "map" THEN <<>> ELSE <<Node(T.key, ""), Node(T.val, "")>>
    [] T.k = "struct" -> LET fs == EncFields(T) IN [j \in 1..Len(fs) |-> Node(fs[j].t, FieldTag(fs[j]))]
    [] OTHER -> <<>>

\* the slice wrapper is chosen by the element codec's wire type; two combinations have no wrapper
SliceFails(T) == LET e == Bake(T.e, "")  w == WT(Cfg0, e) IN
  \/ w = WTSlice
  \/ (w \in {WT64, WT32} /\ Under(T.e).k = "ptr")

NodeDef(n) == LET T == Under(n.T)  ks == Kids(n) IN
  CASE T.k \in Scalars ->
         IF n.tag = "" \/ (n.tag = "flat" /\ T.k \in {"int", "uint"})
           THEN [kind |-> IF n.T.k = "ref" THEN "named" ELSE "basic"]
           ELSE [kind |-> "unsupported"]
    [] T.k \in Registered -> IF n.tag = "" THEN [kind |-> "basic"] ELSE [kind |-> "unsupported"]
    [] T.k = "ptr" -> IF ks = <<>> THEN [kind |-> "unsupported"] ELSE [kind |-> "wrap", elem |-> ks[1].key, bad |-> FALSE]
    [] T.k = "slice" -> [kind |-> "wrap", elem |-> ks[1].key, bad |-> SliceFails(T)]
    [] T.k = "map" -> IF ks = <<>> THEN [kind |-> "unsupported"] ELSE [kind |-> "map", key |-> ks[1].key, val |-> ks[2].key]
    [] T.k = "struct" -> [kind |-> "struct", fields |-> [j \in 1..Len(ks) |-> ks[j].key], dup |-> DupIndex(T)]
    [] OTHER -> [kind |-> "unsupported"]

RECURSIVE Close(_, _)
\* all nodes reachable from the roots, each once
Close(todo, done) ==
  IF todo = <<>> THEN done
  ELSE LET n == Head(todo) IN
       IF \E j \in 1..Len(done) : done[j].key = n.key THEN Close(Tail(todo), done)
       ELSE Close(Tail(todo) \o Kids(n), Append(done, n))
TypeDefOf(roots) == LET ns == Close(roots, <<>>) IN
  [k \in {ns[j].key : j \in 1..Len(ns)} |-> NodeDef(ns[CHOOSE j \in 1..Len(ns) : ns[j].key = k])]
=============================================================================
