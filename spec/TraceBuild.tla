------------------------------- MODULE TraceBuild -------------------------------
(* Validates the yield-hook traces of scheduled executions ("sched" events) against   *)
(* CodecBuild, action by action.  The harness logs (process, yield point) every time   *)
(* a goroutine parks at a hook, and (process, "done") when it finishes; between two     *)
(* consecutive entries of one process lies exactly one segment of the code, i.e. one    *)
(* CodecBuild action of that process.  The model is deterministic once the order of the *)
(* segments is known, so the trace fixes the whole behaviour: the validator takes the   *)
(* process's action and compares the yield point the model arrives at with the logged   *)
(* one.  Where the two differ the code took another branch than the specification -     *)
(* typically a registry lookup that hit where the model says the codec is not visible   *)
(* yet (or the reverse), which is what the publication protocol is about.               *)
(* After a process's request has returned, the rest of its call (encode / decode) only  *)
(* yields at the map-key and interning hooks, which CodecBuild does not describe.       *)
EXTENDS BuildTypes, Json

CONSTANTS TraceFile, EnvFile, OpenFindings, PublishMode
EnvDef == JsonDeserialize(EnvFile)
Trace == ndJsonDeserialize(TraceFile)

TProcs == 0..2
IsSched(e) == e.ev = "sched" /\ e.out.kind = "ok"
RECURSIVE RootsFrom(_, _)
RootsFrom(j, acc) == IF j > Len(Trace) THEN acc
  ELSE LET e == Trace[j]
           rs == IF IsSched(e) THEN [i \in 1..Len(e.procs) |-> Node(e.procs[i].T, "")] ELSE <<>>
           new == SelectSeq(rs, LAMBDA r : ~\E x \in 1..Len(acc) : acc[x].key = r.key) IN
       RootsFrom(j + 1, acc \o new)
TraceTypeDef == TypeDefOf(RootsFrom(1, <<>>))

VARIABLES reg, heap, stack, ret, phase, result, torn, pending,      \* CodecBuild's state
          l, h,          \* position: event, entry of its hook log
          started,       \* which processes have reached their first yield point
          fin,           \* a "done" entry is consumed in two steps: the last build segment, then the use
          mism,          \* why the current event's log is not a behaviour of the model ("" while it is)
          bad
mvars == <<reg, heap, stack, ret, phase, result, torn, pending>>
vars == <<mvars, l, h, started, fin, mism, bad>>

CB == INSTANCE CodecBuild WITH Procs <- TProcs, Want <- [p \in TProcs |-> ""], Publish <- PublishMode, TypeDef <- TraceTypeDef

UsePoints == {"mapassign", "kpool.get", "kpool.put", "intern.miss", "intern.locked", "intern.publish"}
PStr(p) == "p" \o ToString(p)

\* the model's initial state for one event: its processes at the entry of their request, one fresh registry
Start(e) ==
  LET n == IF IsSched(e) THEN Len(e.procs) ELSE 0 IN
  [reg |-> [t \in DOMAIN TraceTypeDef |-> IF TraceTypeDef[t].kind = "basic" THEN CB!BASIC ELSE 0],
   stack |-> [p \in TProcs |-> IF p < n THEN <<CB!Frame(NKey(e.procs[p + 1].T, ""), <<>>)>> ELSE <<>>],
   phase |-> [p \in TProcs |-> IF p < n THEN "build" ELSE "done"]]
NoEvent == [reg |-> <<>>, stack |-> [p \in TProcs |-> <<>>], phase |-> [p \in TProcs |-> "done"]]
StartAt(j) == IF j <= Len(Trace) THEN Start(Trace[j]) ELSE NoEvent

Init == /\ l = 1 /\ h = 1 /\ started = [p \in TProcs |-> FALSE] /\ fin = FALSE /\ mism = "" /\ bad = 0
        /\ LET s == StartAt(1) IN reg = s.reg /\ stack = s.stack /\ phase = s.phase
        /\ heap = <<>> /\ ret = [p \in TProcs |-> 0] /\ result = [p \in TProcs |-> 0] /\ torn = FALSE /\ pending = [p \in TProcs |-> <<>>]

\* go on with the next event
Advance(v) ==
  /\ (v # "ok" => PrintT("VERDICT " \o ToString(Trace[l].id) \o " C07 hook-trace:" \o v))
  /\ bad' = bad + (IF v = "ok" THEN 0 ELSE 1)
  /\ l' = l + 1 /\ h' = 1 /\ started' = [p \in TProcs |-> FALSE] /\ fin' = FALSE /\ mism' = ""
  /\ LET s == StartAt(l + 1) IN reg' = s.reg /\ stack' = s.stack /\ phase' = s.phase
  /\ heap' = <<>> /\ ret' = [p \in TProcs |-> 0] /\ result' = [p \in TProcs |-> 0] /\ torn' = FALSE /\ pending' = [p \in TProcs |-> <<>>]

\* where the model says process p is after its step
ViewAfter(p) == IF phase'[p] = "build" THEN stack'[p][Len(stack'[p])].pc ELSE "use"

HookStep(e) == LET ev == e.out.hooks[h]  p == ev.p  pt == ev.point IN
  /\ UNCHANGED <<l, bad>>
  /\ IF ~started[p] THEN
       /\ started' = [started EXCEPT ![p] = TRUE]
       /\ mism' = IF pt = "load" THEN "" ELSE PStr(p) \o ":first-yield-is-" \o pt
       /\ h' = h + 1 /\ UNCHANGED <<mvars, fin>>
     ELSE IF fin THEN                                  \* second half of a "done" entry
       /\ CB!Use(p) /\ fin' = FALSE /\ h' = h + 1 /\ mism' = "" /\ UNCHANGED started
     ELSE IF phase[p] = "build" THEN
       /\ CB!Step(p)
       /\ UNCHANGED started
       /\ LET view == ViewAfter(p) IN
          IF pt = "done" THEN
            IF view = "use" THEN fin' = TRUE /\ h' = h /\ mism' = ""
            ELSE fin' = FALSE /\ h' = h + 1 /\ mism' = PStr(p) \o ":call-returned-where-the-model-is-at-yield-" \o view \o "@" \o ToString(h)
          ELSE /\ fin' = FALSE /\ h' = h + 1
               /\ mism' = IF view = "use" THEN (IF pt \in UsePoints THEN "" ELSE PStr(p) \o ":yield-" \o pt \o "-where-the-model-has-the-request-returned@" \o ToString(h))
                          ELSE IF view = pt THEN "" ELSE PStr(p) \o ":yield-" \o pt \o "-where-the-model-is-at-" \o view \o "@" \o ToString(h)
     ELSE IF phase[p] = "use" THEN
       /\ UNCHANGED <<started, fin>> /\ h' = h + 1
       /\ IF pt = "done" THEN CB!Use(p) /\ mism' = ""
          ELSE /\ UNCHANGED mvars
               /\ mism' = IF pt \in UsePoints THEN "" ELSE PStr(p) \o ":yield-" \o pt \o "-after-the-request-returned@" \o ToString(h)
     ELSE /\ UNCHANGED <<mvars, started, fin>> /\ h' = h + 1
          /\ mism' = PStr(p) \o ":yield-" \o pt \o "-after-the-call-finished@" \o ToString(h)

Final(e) ==
  LET n == Len(e.procs)
      unfinished == {p \in 0..(n - 1) : phase[p] # "done"}
      differ == {p \in 0..(n - 1) : phase[p] = "done" /\ ~e.out.results[p + 1].panic /\ e.procs[p + 1].op # "corrupt"
                                     /\ (result[p] = CB!ERR) # (e.out.results[p + 1].err # "")} IN
  IF unfinished # {} THEN LET p == CHOOSE x \in unfinished : TRUE IN
       PStr(p) \o ":log-ends-where-the-model-is-at-" \o (IF phase[p] = "build" THEN CB!Top(p).pc ELSE "use")
  ELSE IF differ # {} THEN PStr(CHOOSE x \in differ : TRUE) \o ":request-outcome-differs-from-the-model"
  ELSE IF torn THEN "incomplete-struct-codec-used"
  ELSE "ok"

Next == /\ l <= Len(Trace)
        /\ LET e == Trace[l] IN
           IF ~IsSched(e) THEN Advance("ok")
           ELSE IF mism # "" THEN Advance(mism)
           ELSE IF h <= Len(e.out.hooks) THEN HookStep(e)
           ELSE Advance(Final(e))
Spec == Init /\ [][Next]_vars
Finished == (l = Len(Trace) + 1) => PrintT(<<"JUDGED", Len(Trace), bad>>)
=============================================================================
