------------------------------ MODULE JSONOutput ------------------------------
(* plenccodec.JSONOutput as an implementation-shaped state machine (fields data,   *)
(* depth, inField, stack of {key, objvalue, value}; one action per Outputter call, *)
(* Done, Reset) next to the abstract document the calls describe.  The output is a *)
(* token sequence; a recursive-descent parser over tokens states the property:     *)
(* after Done the output parses to exactly the call tree.                          *)
EXTENDS JSONTree

\* ---------- the machine ----------
CONSTANTS MaxDepth, MaxWidth, MaxTokens, Scalars, Names

VARIABLES data, depth, inField, stack,      \* JSONOutput's fields; data is a token sequence
          calls,                             \* the calls made on the current document (history)
          docs                               \* documents completed on this outputter so far (Reset re-use)
vars == <<data, depth, inField, stack, calls, docs>>

Prefix == IF inField THEN <<>> ELSE Indent(depth)
Open == LET f[i \in 0..Len(calls)] ==          \* the kinds of the currently open containers, from the history
              IF i = 0 THEN <<>>
              ELSE CASE calls[i].op = "so" -> Append(f[i - 1], "obj")
                     [] calls[i].op = "sa" -> Append(f[i - 1], "arr")
                     [] calls[i].op \in {"eo", "ea"} -> SubSeq(f[i - 1], 1, Len(f[i - 1]) - 1)
                     [] OTHER -> f[i - 1]
        IN f[Len(calls)]
TopState == IF stack = <<>> THEN "none" ELSE stack[Len(stack)]
\* an object expects a name first (state "key"); after NameField the state is "objvalue" and inField is set
WantValue == IF stack = <<>> THEN calls = <<>> ELSE (TopState = "value") \/ (TopState = "objvalue" /\ inField)

Init == data = <<>> /\ depth = 0 /\ inField = FALSE /\ stack = <<>> /\ calls = <<>> /\ docs = 0

Scalar(x) == /\ WantValue
             /\ data' = data \o Prefix \o <<<<"s", x>>>> \o Punct(stack)
             /\ stack' = PunctState(stack) /\ inField' = FALSE /\ depth' = depth
             /\ calls' = Append(calls, [op |-> "sc", x |-> x]) /\ docs' = docs
StartObject == /\ WantValue /\ depth < MaxDepth
               /\ data' = data \o Prefix \o <<P("{"), W("nl")>>
               /\ inField' = FALSE /\ depth' = depth + 1 /\ stack' = Append(stack, "key")
               /\ calls' = Append(calls, [op |-> "so", x |-> ""]) /\ docs' = docs
StartArray ==  /\ WantValue /\ depth < MaxDepth
               /\ data' = data \o Prefix \o <<P("["), W("nl")>>
               /\ inField' = FALSE /\ depth' = depth + 1 /\ stack' = Append(stack, "value")
               /\ calls' = Append(calls, [op |-> "sa", x |-> ""]) /\ docs' = docs
NameField(n) == /\ stack # <<>> /\ TopState = "key"
                /\ data' = data \o Prefix \o <<<<"k", n>>>> \o Punct(stack)
                /\ stack' = PunctState(stack) /\ inField' = TRUE /\ depth' = depth
                /\ calls' = Append(calls, [op |-> "nf", x |-> n]) /\ docs' = docs
\* EndObject / EndArray: end(); prefix(); closer; punctuate()
End(kind, closer, op) ==
   /\ stack # <<>> /\ Open # <<>> /\ Open[Len(Open)] = kind /\ ~inField
   /\ LET d1 == EndData(data)
          st1 == SubSeq(stack, 1, Len(stack) - 1)
          dep1 == depth - 1
          pre == Indent(dep1)
      IN /\ data' = d1 \o pre \o <<P(closer)>> \o Punct(st1)
         /\ stack' = PunctState(st1) /\ depth' = dep1 /\ inField' = FALSE
   /\ calls' = Append(calls, [op |-> op, x |-> ""]) /\ docs' = docs
Finished == stack = <<>> /\ calls # <<>> /\ (IF calls = <<>> THEN FALSE ELSE calls[Len(calls)].op # "done")
\* Done(): end() at depth 0 appends a newline
Done == /\ Finished
        /\ data' = Append(data, W("nl")) /\ UNCHANGED <<depth, inField, stack, docs>>
        /\ calls' = Append(calls, [op |-> "done", x |-> ""])
\* Reset(): the outputter must behave like a new one (it may be called at any point, also mid-document)
Reset == /\ calls # <<>> /\ docs < 1
         /\ data' = <<>> /\ depth' = 0 /\ inField' = FALSE /\ stack' = <<>> /\ calls' = <<>> /\ docs' = docs + 1

Width == Cardinality({i \in 1..Len(calls) : calls[i].op \in {"sc", "so", "sa"}})
LastOp == IF calls = <<>> THEN "" ELSE calls[Len(calls)].op
Next == /\ (Len(NoWS(data)) < MaxTokens \/ Finished \/ LastOp = "done")
        /\ \/ (LastOp # "done" /\
               (\/ \E x \in Scalars : Scalar(x)
                \/ StartObject \/ StartArray
                \/ \E n \in Names : NameField(n)
                \/ End("obj", "}", "eo") \/ End("arr", "]", "ea")
                \/ Done))
           \/ Reset
Spec == Init /\ [][Next]_vars

DoneCalls == SelectSeq(calls, LAMBDA c : c.op # "done")
IsDone == IF calls = <<>> THEN FALSE ELSE calls[Len(calls)].op = "done"
\* C15: after Done the output is one valid document whose parse equals the call tree
DoneIsValid == IsDone => (TreeOf(DoneCalls) # <<>> /\ Parse(data) = TreeOf(DoneCalls))
\* the implementation's stack mirrors the open containers
StackMirrors == Len(stack) = Len(Open) /\ depth = Len(Open)
\* after Reset the state equals the initial one (checked as: the same calls give the same output whatever docs is)
ResetIsInit == (calls = <<>>) => (data = <<>> /\ depth = 0 /\ ~inField /\ stack = <<>>)
=============================================================================
