------------------------------- MODULE Intern -------------------------------
(* InternedStringCodec.Read / addString (plenccodec/string.go), one action   *)
(* per atomic step, over explicit memory objects so that aliasing is visible. *)
EXTENDS Integers, Sequences, FiniteSets, TLC

CONSTANTS Procs, Words, MaxCalls        \* Words: the byte strings callers decode (model values / small strings)

VARIABLES
  buf,        \* buf[p]: content of p's (re-used) input buffer
  tables,     \* heap of immutable-after-publish tables: seq of [m: word -> strId or 0]
  cur,        \* index of the published table (atomic pointer)
  strs,       \* heap of string objects: seq of [own |-> TRUE, w |-> word] or [own |-> FALSE, p |-> proc]  (view of p's buffer)
  lock,       \* 0 or the holder
  pc, loc,    \* per-process control and locals [tbl, res, ntbl]
  got,        \* history: set of <<strId, word expected at return time>>
  calls
vars == <<buf, tables, cur, strs, lock, pc, loc, got, calls>>

Val(s) == IF strs[s].own THEN strs[s].w ELSE buf[strs[s].p]     \* what the program reads through string s now

Init == /\ buf = [p \in Procs |-> CHOOSE w \in Words : TRUE]
        /\ tables = <<[m |-> [w \in Words |-> 0]]>> /\ cur = 1 /\ strs = <<>> /\ lock = 0
        /\ pc = [p \in Procs |-> "idle"] /\ loc = [p \in Procs |-> [tbl |-> 0, res |-> 0, ntbl |-> 0]]
        /\ got = {} /\ calls = 0

\* caller puts new bytes into its buffer (overwriting what was there) and calls Read
Call(p, w) == /\ pc[p] = "idle" /\ calls < MaxCalls
              /\ buf' = [buf EXCEPT ![p] = w] /\ calls' = calls + 1
              /\ pc' = [pc EXCEPT ![p] = "load"]
              /\ UNCHANGED <<tables, cur, strs, lock, loc, got>>
LoadTable(p) == /\ pc[p] = "load"
                /\ loc' = [loc EXCEPT ![p].tbl = cur]
                /\ pc' = [pc EXCEPT ![p] = "lookup"]
                /\ UNCHANGED <<buf, tables, cur, strs, lock, got, calls>>
Lookup(p) == /\ pc[p] = "lookup"
             /\ LET s == tables[loc[p].tbl].m[buf[p]] IN
                IF s # 0 THEN /\ loc' = [loc EXCEPT ![p].res = s] /\ pc' = [pc EXCEPT ![p] = "ret"]
                         ELSE /\ loc' = loc /\ pc' = [pc EXCEPT ![p] = "lock"]       \* hook intern.miss
             /\ UNCHANGED <<buf, tables, cur, strs, lock, got, calls>>
Lock(p) == /\ pc[p] = "lock" /\ lock = 0
           /\ lock' = p /\ pc' = [pc EXCEPT ![p] = "recheck"]                        \* hook intern.locked
           /\ UNCHANGED <<buf, tables, cur, strs, loc, got, calls>>
Recheck(p) == /\ pc[p] = "recheck"
              /\ LET s == tables[cur].m[buf[p]] IN
                 IF s # 0 THEN /\ loc' = [loc EXCEPT ![p].res = s] /\ pc' = [pc EXCEPT ![p] = "unlock"]
                               /\ UNCHANGED <<tables, strs>>
                 ELSE LET sid == Len(strs) + 1 IN                                    \* s = string(data): a private copy
                      /\ strs' = Append(strs, [own |-> TRUE, w |-> buf[p], p |-> p])
                      /\ tables' = Append(tables, [m |-> [tables[cur].m EXCEPT ![buf[p]] = sid]])
                      /\ loc' = [loc EXCEPT ![p].res = sid, ![p].ntbl = Len(tables) + 1]
                      /\ pc' = [pc EXCEPT ![p] = "publish"]                          \* hook intern.publish
              /\ UNCHANGED <<buf, cur, lock, got, calls>>
Publish(p) == /\ pc[p] = "publish"
              /\ cur' = loc[p].ntbl /\ pc' = [pc EXCEPT ![p] = "unlock"]
              /\ UNCHANGED <<buf, tables, strs, lock, loc, got, calls>>
Unlock(p) == /\ pc[p] = "unlock" /\ lock' = 0 /\ pc' = [pc EXCEPT ![p] = "ret"]
             /\ UNCHANGED <<buf, tables, cur, strs, loc, got, calls>>
Ret(p) == /\ pc[p] = "ret"
          /\ got' = got \cup {<<loc[p].res, buf[p]>>}
          /\ pc' = [pc EXCEPT ![p] = "idle"]
          /\ UNCHANGED <<buf, tables, cur, strs, lock, loc, calls>>

Next == \E p \in Procs : (\E w \in Words : Call(p, w)) \/ LoadTable(p) \/ Lookup(p) \/ Lock(p)
                          \/ Recheck(p) \/ Publish(p) \/ Unlock(p) \/ Ret(p)
Spec == Init /\ [][Next]_vars

\* C19: every string ever returned still reads as the bytes that were decoded, whatever happened since
Transparent == \A g \in got : Val(g[1]) = g[2]
\* table keys map to strings with the same content (the map is keyed by content)
TableSound == \A t \in 1..Len(tables) : \A w \in Words : tables[t].m[w] # 0 => Val(tables[t].m[w]) = w
\* published tables only grow
Monotone == [][\A w \in Words : tables[cur].m[w] # 0 => tables'[cur'].m[w] = tables[cur].m[w]]_vars
NoViews == \A s \in 1..Len(strs) : strs[s].own
=============================================================================
