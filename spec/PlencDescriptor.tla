--------------------------- MODULE PlencDescriptor ---------------------------
(* The Descriptor a type must have (DESIGN.md A.6): one element per encoded     *)
(* field in declaration order with index, name, field type, type name,          *)
(* explicit-presence flag and logical type, recursively.                        *)
EXTENDS PlencDecode

D(type, tname, explicit, logical, elems) ==
  [index |-> 0, name |-> "", type |-> type, tname |-> tname, explicit |-> explicit, logical |-> logical, elems |-> elems]

RECURSIVE DescOf(_, _, _)
\* fuel bounds the unfolding of recursive types (whose by-value descriptor tree is infinite)
DescOf(T0, explicit, fuel) == LET T == Resolve(T0) IN
  CASE T.k = "bool" -> D("Bool", "", explicit, "None", <<>>)
    [] T.k = "int" -> D(IF T.flat THEN "FlatInt" ELSE "Int", "", explicit, "None", <<>>)
    [] T.k = "uint" -> D("Uint", "", explicit, "None", <<>>)
    [] T.k = "f32" -> D("Float32", "", explicit, "None", <<>>)
    [] T.k = "f64" -> D("Float64", "", explicit, "None", <<>>)
    [] T.k \in {"string", "bytes"} -> D("String", "", explicit, "None", <<>>)
    [] T.k = "time" -> D("Time", "", explicit, "Timestamp", <<>>)
    [] T.k = "bqtime" -> D("FlatInt", "", explicit, "Timestamp", <<>>)
    [] T.k = "null" -> DescOf(NullBase(T.of), TRUE, fuel)
    [] T.k = "ptr" -> DescOf(T.e, TRUE, fuel)
    [] T.k = "jsonobj" -> D("JSONObject", "", explicit, "None", <<>>)
    [] T.k = "jsonarr" -> D("JSONArray", "", explicit, "None", <<>>)
    [] T.k = "slice" -> D("Slice", "", explicit, "None", IF fuel = 0 THEN <<>> ELSE <<DescOf(T.e, FALSE, fuel - 1)>>)
    [] T.k = "map" ->
         D("Slice", "", explicit, "Map",
           IF fuel = 0 THEN <<>> ELSE
           <<D("Struct", "", FALSE, "MapEntry",
               <<[DescOf(T.key, FALSE, fuel - 1) EXCEPT !.index = 1, !.name = "key"],
                 [DescOf(T.val, FALSE, fuel - 1) EXCEPT !.index = 2, !.name = "value"]>>)>>)
    [] T.k = "struct" ->
         LET enc == SelectSeq([i \in 1..Len(T.f) |-> i], LAMBDA i : T.f[i].enc) IN
         D("Struct", T.name, explicit, "None",
           IF fuel = 0 THEN <<>> ELSE
           [j \in 1..Len(enc) |-> [DescOf(T.f[enc[j]].t, FALSE, fuel - 1) EXCEPT !.index = T.f[enc[j]].i, !.name = T.f[enc[j]].n]])

\* comparison on exactly the attributes the property names; "" when equal, else where they differ.
\* Not compared: the synthetic type name of map entries, the names "key" / "value" (cmpNames = FALSE below a map entry)
RECURSIVE DescDiff(_, _, _, _)
DescDiff(m, o, cmpName, fuel) ==
  IF m.type # o.type THEN "type"
  ELSE IF m.index # o.index THEN "index"
  ELSE IF cmpName /\ m.name # o.name THEN "name"
  ELSE IF m.explicit # o.explicit THEN "explicit-presence"
  ELSE IF m.logical # o.logical THEN "logical-type"
  ELSE IF m.type = "Struct" /\ m.logical # "MapEntry" /\ m.tname # o.tname THEN "type-name"
  ELSE IF fuel = 0 THEN ""
  ELSE IF Len(m.elems) # Len(o.elems) THEN "element-count"
  ELSE LET bad == {i \in 1..Len(m.elems) : DescDiff(m.elems[i], o.elems[i], m.logical # "MapEntry", fuel - 1) # ""} IN
       IF bad = {} THEN ""
       ELSE LET i == CHOOSE x \in bad : \A y \in bad : x <= y IN
            "[" \o ToString(i) \o "]" \o DescDiff(m.elems[i], o.elems[i], m.logical # "MapEntry", fuel - 1)
=============================================================================
