------------------------------ MODULE PlencNum ------------------------------
(* Numbers as the wire sees them.  TLC integers are 32-bit, so a 64-bit      *)
(* unsigned value is a canonical little-endian sequence of 7-bit limbs:      *)
(* <<>> is 0, the last limb is never 0, at most 10 limbs, the 10th is <= 1.  *)
(* A signed value is [neg |-> BOOLEAN, mag |-> limbs], canonical zero has    *)
(* neg = FALSE.                                                              *)
EXTENDS Integers, Sequences

Limb == 0..127
Byte == 0..255

IsCanon(l) == /\ Len(l) <= 10
              /\ \A i \in 1..Len(l) : l[i] \in Limb
              /\ (l # <<>> => l[Len(l)] # 0)
              /\ (Len(l) = 10 => l[10] <= 1)

RECURSIVE Strip(_)
Strip(l) == IF l = <<>> THEN l
            ELSE IF l[Len(l)] = 0 THEN Strip(SubSeq(l, 1, Len(l) - 1)) ELSE l

RECURSIVE NatLimbs(_)
NatLimbs(n) == IF n = 0 THEN <<>> ELSE <<n % 128>> \o NatLimbs(n \div 128)

\* value of a short limb sequence as a TLC integer (only for < 2^31, i.e. <= 4 limbs and a small 5th)
RECURSIVE LimbsNat(_)
LimbsNat(l) == IF l = <<>> THEN 0 ELSE l[1] + 128 * LimbsNat(Tail(l))
FitsInt(l) == Len(l) <= 4 \/ (Len(l) = 5 /\ l[5] <= 7)

\* ---- arithmetic on limbs -------------------------------------------------
RECURSIVE Double(_, _)      \* 2*l + c, c \in {0,1}
Double(l, c) == IF l = <<>> THEN (IF c = 0 THEN <<>> ELSE <<c>>)
                ELSE LET d == 2 * l[1] + c IN <<d % 128>> \o Double(Tail(l), d \div 128)

RECURSIVE HalveFrom(_, _)   \* floor(l / 2), processing from the top limb; r is the carried remainder
HalveFrom(l, r) == IF l = <<>> THEN <<>>
                   ELSE LET top == l[Len(l)] + 128 * r IN
                        Append(HalveFrom(SubSeq(l, 1, Len(l) - 1), top % 2), top \div 2)
Halve(l) == Strip(HalveFrom(l, 0))
IsOdd(l) == l # <<>> /\ l[1] % 2 = 1

RECURSIVE Inc(_)
Inc(l) == IF l = <<>> THEN <<1>>
          ELSE IF l[1] < 127 THEN <<l[1] + 1>> \o Tail(l) ELSE <<0>> \o Inc(Tail(l))
RECURSIVE DecRaw(_)         \* l > 0
DecRaw(l) == IF l[1] > 0 THEN <<l[1] - 1>> \o Tail(l) ELSE <<127>> \o DecRaw(Tail(l))
Dec(l) == Strip(DecRaw(l))

\* two's complement at width w (8,16,32,64): 2^w - mag for 0 < mag <= 2^(w-1)
LimbMax(w, i) == LET full == w \div 7 IN
                 IF i <= full THEN 127 ELSE (2 ^ (w - 7 * full)) - 1      \* top partial limb
NLimbs(w) == (w + 6) \div 7
Pad(l, n) == l \o [i \in 1..(n - Len(l)) |-> 0]
Complement(w, l) == LET p == Pad(l, NLimbs(w)) IN [i \in 1..NLimbs(w) |-> LimbMax(w, i) - p[i]]
\* Inc may carry out of the top partial limb only for mag = 0, which callers exclude
TwosNeg(w, mag) == Strip(Inc(Complement(w, mag)))

\* the unsigned w-bit pattern of a signed value
Bits(w, i) == IF i.neg THEN TwosNeg(w, i.mag) ELSE i.mag
\* and back: pattern u (canonical, < 2^w) read as a signed w-bit value
TopBitSet(w, u) == LET n == NLimbs(w) IN Len(u) = n /\ u[n] >= 2 ^ ((w - 1) % 7)
FromBits(w, u) == IF TopBitSet(w, u) THEN [neg |-> TRUE, mag |-> TwosNeg(w, u)] ELSE [neg |-> FALSE, mag |-> u]

\* ---- varints -------------------------------------------------------------
AppendVarUint(l) == IF l = <<>> THEN <<0>>
                    ELSE [i \in 1..Len(l) |-> IF i < Len(l) THEN l[i] + 128 ELSE l[i]]
SizeVarUint(l) == IF l = <<>> THEN 1 ELSE Len(l)

ZigZag(i) == IF i.neg THEN Double(Dec(i.mag), 1) ELSE Double(i.mag, 0)
ZagZig(u) == IF IsOdd(u) THEN [neg |-> TRUE, mag |-> Inc(Halve(u))] ELSE [neg |-> FALSE, mag |-> Halve(u)]
AppendVarInt(i) == AppendVarUint(ZigZag(i))

\* ReadVarUint(b) mirrors encoding/binary.Uvarint: [n > 0, v] on success, n = 0 if b ends before the
\* terminator, n < 0 (= -(bytes read)) on overflow (more than 10 bytes, or a 10th byte > 1).
RECURSIVE RV(_, _, _)
RV(b, i, acc) ==
  IF i > Len(b) THEN [n |-> 0, v |-> <<>>]
  ELSE IF i = 11 THEN [n |-> -11, v |-> <<>>]           \* Uvarint: i == MaxVarintLen64 -> overflow, -(i+1)
  ELSE IF b[i] < 128
       THEN IF i = 10 /\ b[i] > 1 THEN [n |-> -10, v |-> <<>>]
            ELSE [n |-> i, v |-> Strip(Append(acc, b[i]))]
       ELSE RV(b, i + 1, Append(acc, b[i] - 128))
ReadVarUint(b) == RV(b, 1, <<>>)

\* ---- decimal text of a number given as limbs ----
RECURSIVE DivMod10(_, _, _)
\* long division by 10 from the most significant limb: returns <<quotient limbs (msb first, built up), remainder>>
DivMod10(lm, i, r) == IF i = 0 THEN <<<<>>, r>>
                      ELSE LET cur == r * 128 + lm[i]  rest == DivMod10(lm, i - 1, cur % 10) IN
                           <<Append(rest[1], cur \div 10), rest[2]>>
\* Append builds least-significant first because the recursion returns from the low end: quotient[j] belongs to limb j
Div10(lm) == LET d == DivMod10(lm, Len(lm), 0) IN [q |-> Strip(d[1]), r |-> d[2]]
\* division by a small number (< 2^24, so that the partial remainders fit TLC's integers)
RECURSIVE DivModSmall(_, _, _, _)
DivModSmall(lm, i, r, d) == IF i = 0 THEN <<<<>>, r>>
                            ELSE LET cur == r * 128 + lm[i]  rest == DivModSmall(lm, i - 1, cur % d, d) IN
                                 <<Append(rest[1], cur \div d), rest[2]>>
DivSmall(lm, d) == LET x == DivModSmall(lm, Len(lm), 0, d) IN [q |-> Strip(x[1]), r |-> x[2]]
RECURSIVE Digits(_)
Digits(lm) == IF lm = <<>> THEN <<>> ELSE LET d == Div10(lm) IN Append(Digits(d.q), 48 + d.r)
DecText(n) == (IF n.neg /\ n.mag # <<>> THEN <<45>> ELSE <<>>) \o (IF n.mag = <<>> THEN <<48>> ELSE Digits(n.mag))


Max(a, b) == IF a > b THEN a ELSE b
=============================================================================
