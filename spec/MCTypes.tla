-------------------------------- MODULE MCTypes --------------------------------
(* C08: the universe of type definitions - field kind x position x tag string x   *)
(* exported / unexported, plus two-field definitions sharing an index - and the   *)
(* design-level sanity of the classification.  Every definition is emitted as a   *)
(* "typedef" case for the real CodecForType.                                      *)
EXTENDS PlencClassify, Json

CONSTANT Emit
MCEnv == [none |-> [k |-> "bool"]]

PT(form, idx, opt) == [form |-> form, idx |-> idx, opt |-> opt]
TagForms == {
  [raw |-> "", has |-> FALSE, pt |-> PT("none", 0, "")],
  [raw |-> "", has |-> TRUE, pt |-> PT("bad", 0, "")],            \* plenc:"" : empty tag reads as missing
  [raw |-> "-", has |-> TRUE, pt |-> PT("dash", 0, "")],
  [raw |-> "1", has |-> TRUE, pt |-> PT("index", 1, "")],
  [raw |-> "0", has |-> TRUE, pt |-> PT("index", 0, "")],
  [raw |-> "-1", has |-> TRUE, pt |-> PT("index", -1, "")],
  [raw |-> "abc", has |-> TRUE, pt |-> PT("bad", 0, "")],
  [raw |-> "1,", has |-> TRUE, pt |-> PT("index", 1, "")],
  [raw |-> "1,flat", has |-> TRUE, pt |-> PT("index", 1, "flat")],
  [raw |-> "1,intern", has |-> TRUE, pt |-> PT("index", 1, "intern")],
  [raw |-> "1,proto", has |-> TRUE, pt |-> PT("index", 1, "proto")],
  [raw |-> "1,zzz", has |-> TRUE, pt |-> PT("index", 1, "zzz")],
  [raw |-> "1,flat,x", has |-> TRUE, pt |-> PT("index", 1, "flat,x")],
  [raw |-> " 1", has |-> TRUE, pt |-> PT("bad", 0, "")],
  [raw |-> "1 ", has |-> TRUE, pt |-> PT("bad", 0, "")],
  [raw |-> "1.5", has |-> TRUE, pt |-> PT("bad", 0, "")],
  [raw |-> "99999999999999999999", has |-> TRUE, pt |-> PT("bad", 0, "")],
  \* well-formed numbers beyond the largest field number of the wire format (2^29 - 1): no decode table can be built for them
  [raw |-> "9223372036854775807", has |-> TRUE, pt |-> PT("bad", 0, "")],
  [raw |-> "17592186044416", has |-> TRUE, pt |-> PT("bad", 0, "")],
  [raw |-> "536870912", has |-> TRUE, pt |-> PT("bad", 0, "")],
  [raw |-> "+2", has |-> TRUE, pt |-> PT("index", 2, "")],
  [raw |-> "300", has |-> TRUE, pt |-> PT("index", 300, "")] }
DupIndexes == {0, 1, 5, 31, 32, 63, 64, 65, 127, 128, 300}
Sup == {[k |-> "bool"], [k |-> "int", w |-> 8], [k |-> "int", w |-> 16], [k |-> "int", w |-> 32], [k |-> "int", w |-> 64], [k |-> "uint", w |-> 8], [k |-> "f32"], [k |-> "f64"],
        [k |-> "string"], [k |-> "bytes"], [k |-> "time"],
        [k |-> "null", of |-> "float"], [k |-> "null", of |-> "string"], [k |-> "null", of |-> "int"]}
Unsup == {[k |-> "unsup", g |-> x] : x \in {"complex64", "complex128", "array", "chan", "func", "iface", "uintptr", "unsafeptr"}}
FieldKinds == Sup \cup Unsup
Comparable(K) == K.k \in {"bool", "int", "uint", "f32", "f64", "string", "time"} \/ (K.k = "unsup" /\ K.g # "func")
IntT == [k |-> "int", w |-> 64]
StrT == [k |-> "string"]
Positions == {"field", "ptr", "slice", "mapkey", "mapval", "nested", "slice2", "mapmap", "ptrmap", "slicemap", "sliceptr", "ptrptr", "top"}
Fd(nm, exported, tf, t) == [n |-> nm, gn |-> nm, exported |-> exported, pt |-> tf.pt, raw |-> TRUE,
                            tag |-> IF tf.has THEN "plenc:\"" \o tf.raw \o "\"" ELSE "", t |-> t,
                            i |-> 0, enc |-> FALSE, opt |-> ""]
OkFd(nm, idx, t) == Fd(nm, TRUE, [raw |-> ToString(idx), has |-> TRUE, pt |-> PT("index", idx, "")], t)
St(fs) == [k |-> "struct", name |-> "", f |-> fs]
At(p, K) ==
  CASE p = "field" -> K
    [] p = "ptr" -> [k |-> "ptr", e |-> K]
    [] p = "slice" -> [k |-> "slice", e |-> K]
    [] p = "mapkey" -> [k |-> "map", key |-> K, val |-> IntT]
    [] p = "mapval" -> [k |-> "map", key |-> StrT, val |-> K]
    [] p = "nested" -> St(<<OkFd("X", 1, K)>>)
    [] p = "slice2" -> [k |-> "slice", e |-> [k |-> "slice", e |-> K]]
    [] p = "mapmap" -> [k |-> "map", key |-> StrT, val |-> [k |-> "map", key |-> StrT, val |-> K]]
    [] p = "ptrmap" -> [k |-> "ptr", e |-> [k |-> "map", key |-> StrT, val |-> K]]
    [] p = "slicemap" -> [k |-> "slice", e |-> [k |-> "map", key |-> StrT, val |-> K]]
    [] p = "sliceptr" -> [k |-> "slice", e |-> [k |-> "ptr", e |-> K]]
    [] p = "ptrptr" -> [k |-> "ptr", e |-> [k |-> "ptr", e |-> K]]

\* field names: exported / unexported, ASCII and not (symbolic: the harness turns NAlower.. into a name starting with a
\* lower-case non-ASCII letter, NAupper.. into one starting with an upper-case non-ASCII letter)
Names == {[n |-> "A", x |-> TRUE], [n |-> "a", x |-> FALSE], [n |-> "NAlower1", x |-> FALSE], [n |-> "NAupper1", x |-> TRUE]}
VARIABLES st, c
vars == <<st, c>>
Init == st = "pos" /\ c = [pos |-> "", K |-> [k |-> "bool"], tf |-> CHOOSE x \in TagForms : TRUE, exp |-> [n |-> "A", x |-> TRUE], K2 |-> [k |-> "bool"], di |-> 5]
Next ==
  \/ st = "pos" /\ \E p \in Positions \cup {"dup"} : c' = [c EXCEPT !.pos = p] /\ st' = "kind"
  \/ st = "kind" /\ \E K \in FieldKinds : (c.pos = "mapkey" => Comparable(K)) /\ (c.pos \in {"slice", "slice2"} => ~(K.k = "uint" /\ K.w = 8))
                    /\ c' = [c EXCEPT !.K = K] /\ st' = IF c.pos = "dup" THEN "k2" ELSE IF c.pos = "top" THEN "done" ELSE "tag"
  \/ st = "k2" /\ \E K \in Sup : c' = [c EXCEPT !.K2 = K] /\ st' = "dupi"
  \/ st = "dupi" /\ \E i \in DupIndexes : c' = [c EXCEPT !.di = i] /\ st' = "done"       \* the shared index: small, at word-size boundaries, large
  \/ st = "tag" /\ \E tf \in TagForms : c' = [c EXCEPT !.tf = tf] /\ st' = "exp"
  \/ st = "exp" /\ \E e \in Names : c' = [c EXCEPT !.exp = e] /\ st' = "done"
Spec == Init /\ [][Next]_vars

Done == st = "done"
Def == IF c.pos = "top" THEN c.K
       ELSE IF c.pos = "dup" THEN St(<<OkFd("A", c.di, c.K), OkFd("Z", 9, IntT), OkFd("B", c.di, c.K2)>>)
       ELSE St(<<Fd(c.exp.n, c.exp.x, c.tf, At(c.pos, c.K)), OkFd("Z", 9, [k |-> "uint", w |-> 8])>>)      \* a one-byte witness right behind the field: a codec touching more than its own bytes hits it
Cls == Classify(Def)

\* sanity of the classification itself
ClassTotal == Done => Cls \in {"accept", "reject", "either"}
\* unexported and "-" fields make any field type acceptable
SkippedIgnored == Done /\ c.pos \notin {"dup", "top"} /\ (~c.exp.x \/ c.tf.pt.form = "dash") => Cls = "accept"
\* an accepted definition has a codec-level reading on which the model's round trip holds for the zero value
AcceptedEncodes == Done /\ Cls = "accept" =>
   LET T == Bake(ToCodecType(Def), "")  d == Decode(Cfg0, T, Encode(Cfg0, T, Zero(T)), Zero(T)) IN d.ok /\ Eq(T, d.v, Zero(T))
DupRejected == Done /\ c.pos = "dup" => Cls = "reject"

CaseJson == ToJson([ev |-> "typedef", T |-> Def, u |-> <<c.pos, c.tf.raw>>])
EmitCase == (Done /\ Emit) => PrintT(<<"CASE", CaseJson>>)
=============================================================================
