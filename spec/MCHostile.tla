------------------------------- MODULE MCHostile -------------------------------
(* C04: the input space of "decoding arbitrary bytes" and the design-level view of  *)
(* a total decoder.  All byte strings up to MaxLen over a representative alphabet   *)
(* (lengths 0-2, tags of index 1 and 2 for every wire type, the largest one-byte    *)
(* varint, a bare continuation byte, ff) are enumerated; on each one the model's    *)
(* schema-less walk either fails or tiles the input exactly with frames of at least *)
(* one byte (progress), and the model's typed Decode is total on every target.      *)
(* The strings and the target types are emitted; the real decoders are observed on  *)
(* the cross product (the harness reports returned / error / panic / fatal /        *)
(* timeout and bytes allocated; TraceHostile judges).                               *)
EXTENDS PlencDecode, Json

CONSTANTS MaxLen, Emit
MCEnv == [RecS |-> [k |-> "struct", name |-> "RecS", f |-> <<
            [i |-> 1, n |-> "V", gn |-> "V", enc |-> TRUE, opt |-> "", tag |-> "", t |-> [k |-> "int", w |-> 64]],
            [i |-> 2, n |-> "Kids", gn |-> "Kids", enc |-> TRUE, opt |-> "", tag |-> "", t |-> [k |-> "slice", e |-> [k |-> "ref", n |-> "RecS"]]]>>]]
Alphabet == {0, 1, 2, 8, 10, 11, 13, 18, 19, 127, 128, 255}

VARIABLES s
vars == <<s>>
Init == s = <<>>
Next == Len(s) < MaxLen /\ \E x \in Alphabet : s' = Append(s, x)
Spec == Init /\ [][Next]_vars

F(nm, i, opt, t) == [i |-> i, n |-> nm, gn |-> nm, enc |-> TRUE, opt |-> opt, tag |-> "", t |-> t]
St(fs) == [k |-> "struct", name |-> "", f |-> fs]
I64 == [k |-> "int", w |-> 64]
U8 == [k |-> "uint", w |-> 8]
Str == [k |-> "string"]
Sl(e) == [k |-> "slice", e |-> e]
Pt(e) == [k |-> "ptr", e |-> e]
Mp(k, v) == [k |-> "map", key |-> k, val |-> v]
S2 == St(<<F("A", 1, "", I64), F("B", 2, "", Str)>>)
\* [T, cfg]: one target per codec, both slice forms, maps with scalar / struct keys, time, null types, JSON-any, proto forms, recursion
Targets == <<
  [T |-> I64, cfg |-> "default"], [T |-> [k |-> "bool"], cfg |-> "default"], [T |-> [k |-> "f32"], cfg |-> "default"],
  [T |-> [k |-> "f64"], cfg |-> "default"], [T |-> Str, cfg |-> "default"], [T |-> [k |-> "bytes"], cfg |-> "default"],
  [T |-> [k |-> "time"], cfg |-> "default"], [T |-> [k |-> "time"], cfg |-> "pt"],
  [T |-> Sl(I64), cfg |-> "default"], [T |-> Sl(Pt(I64)), cfg |-> "default"], [T |-> Sl([k |-> "f64"]), cfg |-> "default"],
  [T |-> Sl(Str), cfg |-> "default"], [T |-> Sl(Pt(Str)), cfg |-> "default"], [T |-> Sl(Sl(I64)), cfg |-> "default"],
  [T |-> Sl(S2), cfg |-> "default"], [T |-> Sl([k |-> "time"]), cfg |-> "default"],
  [T |-> S2, cfg |-> "default"],
  [T |-> St(<<F("A", 1, "flat", I64), F("B", 2, "intern", Str), F("C", 3, "", Sl(I64)), F("D", 4, "", Pt(S2)), F("E", 5, "", Sl(Str)),
              F("G", 6, "", [k |-> "f32"]), F("H", 7, "", [k |-> "time"]), F("J", 8, "", Mp(Str, I64))>>), cfg |-> "default"],
  [T |-> St(<<F("A", 1, "", S2), F("B", 2, "", St(<<F("X", 1, "", S2), F("Y", 2, "", Sl(S2))>>))>>), cfg |-> "default"],
  [T |-> Mp(Str, I64), cfg |-> "default"], [T |-> Mp(I64, Str), cfg |-> "default"], [T |-> Mp(S2, St(<<F("V", 1, "", Sl(Str))>>)), cfg |-> "default"],
  [T |-> Mp(Str, Pt(Str)), cfg |-> "default"],
  [T |-> St(<<F("A", 1, "", [k |-> "null", of |-> "int"]), F("B", 2, "", [k |-> "null", of |-> "string"]), F("C", 3, "", [k |-> "null", of |-> "time"]),
              F("D", 4, "", [k |-> "null", of |-> "float"]), F("E", 5, "", [k |-> "null", of |-> "bool"])>>), cfg |-> "default"],
  [T |-> St(<<F("L", 1, "proto", Sl(Str)), F("M", 2, "proto", Mp(Str, I64)), F("N", 3, "proto", Sl(S2))>>), cfg |-> "default"],
  [T |-> St(<<F("L", 1, "", Sl(Str)), F("N", 2, "", Sl(S2)), F("T", 3, "", Sl([k |-> "time"]))>>), cfg |-> "pa"],
  [T |-> [k |-> "jsonobj"], cfg |-> "jsonany"], [T |-> [k |-> "jsonarr"], cfg |-> "jsonany"],
  [T |-> St(<<F("O", 1, "", [k |-> "jsonobj"]), F("A", 2, "", [k |-> "jsonarr"]), F("Z", 3, "", I64)>>), cfg |-> "jsonany"],
  [T |-> [k |-> "ref", n |-> "RecS"], cfg |-> "default"]
>>
CfgOf(n) == [protoTime |-> (n = "pt"), protoArrays |-> (n = "pa"), nullProto |-> FALSE, flatUnsigned |-> FALSE, timeAsZigZag |-> FALSE, marker |-> "none"]

\* the schema-less walk makes progress: it fails, or its frames tile the input exactly, each at least one byte
WalkProgress == LET fr == Frames(s) IN
  fr.ok => /\ \A i \in 1..Len(fr.x) : fr.x[i].size >= 1
           /\ LET sum[i \in 0..Len(fr.x)] == IF i = 0 THEN 0 ELSE sum[i - 1] + fr.x[i].size IN sum[Len(fr.x)] = Len(s)
\* the typed decoder of the model is total (value or error) on every target; JSON-any targets are decoded by PlencJSONAny
DecodeTotal == \A j \in 1..Len(Targets) :
  Targets[j].T.k \in {"jsonobj", "jsonarr"} \/
  (Targets[j].T.k = "struct" /\ \E i \in 1..Len(Targets[j].T.f) : Targets[j].T.f[i].t.k \in {"jsonobj", "jsonarr"}) \/
  LET T == Bake(Targets[j].T, "")  d == Decode(CfgOf(Targets[j].cfg), T, s, Zero(T)) IN d.ok \in BOOLEAN
\* Skip never reports more than there is
SkipBounded == \A wt \in 0..7 : LET n == SkipLen(s, wt) IN n = -1 \/ (n >= 0 /\ n <= Len(s))

ASSUME PrintT(<<"TARGETS", ToJson(Targets)>>)
EmitCase == Emit => PrintT(<<"CASE", ToJson([input |-> s])>>)
=============================================================================
