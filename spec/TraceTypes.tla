------------------------------- MODULE TraceTypes -------------------------------
(* Judges "typedef" events (C08): CodecForType on a definition either returns a     *)
(* codec that obeys the other properties (round trip judged with the model, skipped *)
(* fields neither encoded nor written) or an error naming the problem; never a      *)
(* panic, never a codec that crashes or corrupts data, also not after a rejection.  *)
EXTENDS PlencClassify, KnownDeviations, Json

CONSTANTS TraceFile, EnvFile
EnvDef == JsonDeserialize(EnvFile)
Trace == ndJsonDeserialize(TraceFile)
VARIABLES l, bad
vars == <<l, bad>>

Same(cfg, T, a, b) == Eq(T, Norm(cfg, T, a, FALSE), Norm(cfg, T, b, FALSE))
\* one use of the returned codec: bytes are the documented encoding (which never contains skipped fields) and the
\* pre-populated target ends up as the model's Decode says (which never writes skipped fields)
\* strict = the definition must be accepted: the bytes are the documented ones.  Otherwise (the statement leaves
\* the definition open: error, or a codec that works) only the value-level round trip is demanded.
UseOK(T, r, strict) ==
  IF r.panic THEN "codec-panics:" \o r.where
  ELSE IF r.merr # "" THEN "codec-marshal-error"
  ELSE IF strict /\ ~EncMatches(Cfg0, T, r.v, r.bytes) THEN "codec-bytes"
  ELSE IF r.uerr # "" THEN "codec-unmarshal-error"
  ELSE LET d == Decode(Cfg0, T, IF strict THEN r.bytes ELSE Encode(Cfg0, T, r.v), r.prior) IN
       IF ~d.ok THEN "codec-bytes-undecodable"
       ELSE IF ~Same(Cfg0, T, r.back, d.v) THEN "codec-value@" \o Diff(T, Norm(Cfg0, T, r.back, FALSE), Norm(Cfg0, T, d.v, FALSE))
       ELSE "ok"
RECURSIVE FirstBad(_, _, _, _)
FirstBad(T, rs, i, strict) == IF i > Len(rs) THEN "ok" ELSE LET x == UseOK(T, rs[i], strict) IN IF x # "ok" THEN x ELSE FirstBad(T, rs, i + 1, strict)
\* after a rejection: nothing requested afterwards panics, and whatever contains the rejected type is rejected as well
AfterOK(as) == LET wrong == {i \in 1..Len(as) : as[i].panic}
                   accepted == {i \in 1..Len(as) : ~as[i].panic /\ as[i].err = "" /\ as[i].what \in {"same", "[]T", "*T"}} IN
               IF wrong # {} THEN LET i == CHOOSE x \in wrong : TRUE IN "panic-after-rejection:" \o as[i].what \o ":" \o as[i].where
               ELSE IF accepted # {} THEN LET i == CHOOSE x \in accepted : TRUE IN "accepted-after-rejection:" \o as[i].what
               ELSE "ok"

JudgeC08(e) ==
  LET cls == Classify(e.T) IN
  IF e.out.kind \in {"fatal", "timeout", "oom"} THEN "crash-" \o e.out.kind \o ":" \o e.out.where
  ELSE IF e.out.panic THEN "panic:" \o e.out.where
  ELSE IF e.out.err # ""
       THEN IF cls = "accept" THEN "rejected-a-valid-definition"
            ELSE AfterOK(e.out.after)
  ELSE \* a codec was handed out
       IF cls = "reject" THEN "accepted-an-invalid-definition"
       ELSE FirstBad(Bake(ToCodecType(e.T), ""), e.out.rt, 1, cls = "accept")

\* open findings are named by the class of definitions they apply to and the observed behaviour
HasKind(T0, P(_)) == AnySub(T0, P, 6)
KnownC08(e, v) == v        \* refined below per finding as they are recorded

Init == l = 1 /\ bad = 0
Next == /\ l <= Len(Trace)
        /\ LET e == Trace[l]  v == KnownC08(e, JudgeC08(e)) IN
           /\ (v # "ok" => PrintT("VERDICT " \o ToString(e.id) \o " " \o "C08" \o " " \o v))
           /\ bad' = bad + (IF v = "ok" THEN 0 ELSE 1)
        /\ l' = l + 1
Spec == Init /\ [][Next]_vars
Finished == (l = Len(Trace) + 1) => PrintT(<<"JUDGED", Len(Trace), bad>>)
=============================================================================
