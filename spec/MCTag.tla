--------------------------------- MODULE MCTag ---------------------------------
(* C20 on the model: for every abstract struct of up to MaxFields fields over the   *)
(* field variants and every flag combination the relation is satisfiable by the     *)
(* reference rewriting (unless a multi-name declaration needs an index) and the     *)
(* rewriting is idempotent.  Every struct is emitted for the real tool.            *)
EXTENDS PlencTag, Json

CONSTANTS MaxFields, Emit
VARIABLES st, s, flags
vars == <<st, s, flags>>

Names == {<<"A">>, <<"b">>, <<"X", "Y">>, <<>>}          \* exported, unexported, two names, embedded
Plencs == {PF("none", 0), PF("dash", 0), PF("index", 1), PF("index", 7)}
Excl == {"none", "sql", "json", "jsqn"}        \* jsqn: json:"-" together with an ordinary sql column name
Field(n, p, x, o) == [names |-> n, exported |-> (n # <<"b">>), plenc |-> p, sql |-> IF x = "sql" THEN "dash" ELSE IF x = "jsqn" THEN "name" ELSE "none",
                      json |-> IF x \in {"json", "jsqn"} THEN "dash" ELSE IF o THEN "name" ELSE "none", other |-> o, malformed |-> FALSE]
Variants == {Field(n, p, x, o) : n \in Names, p \in Plencs, x \in Excl, o \in BOOLEAN}
FlagSets == [json : BOOLEAN, sql : BOOLEAN, private : BOOLEAN]

Init == st = "grow" /\ s = <<>> /\ flags = [json |-> FALSE, sql |-> TRUE, private |-> TRUE]
Next == \/ st = "grow" /\ Len(s) < MaxFields /\ \E f \in Variants : s' = Append(s, f) /\ st' = "grow" /\ flags' = flags
        \/ st = "grow" /\ s # <<>> /\ \E fl \in FlagSets : flags' = fl /\ st' = "done" /\ s' = s
Spec == Init /\ [][Next]_vars
Done == st = "done"
\* distinct names within a struct are a Go requirement: the renderer numbers the fields, so repeats are fine here

Satisfiable == Done /\ ~Unsatisfiable(<<s>>, flags) => Accepts(<<s>>, flags, RewriteFn(<<s>>, flags))
Idempotent == Done /\ ~Unsatisfiable(<<s>>, flags) => LET post == RewriteFn(<<s>>, flags) IN RewriteFn(post, flags) = post /\ Accepts(post, flags, post)
\* the relation really forbids touching what it must not touch
Frame == Done => \A i \in 1..Len(s) : s[i].plenc.form # "none" => ~Accepts(<<s>>, flags, <<[s EXCEPT ![i].plenc = PF("index", 99)]>>)

CaseJson == ToJson([ev |-> "tagstruct", fields |-> s, flags |-> flags])
EmitCase == (Done /\ Emit) => PrintT(<<"CASE", CaseJson>>)
=============================================================================
