------------------------------- MODULE PlencTag -------------------------------
(* What plenctag may do to a Go source file, as a relation between the abstract    *)
(* file before and after (C20).  A file is a sequence of structs, a struct a       *)
(* sequence of fields                                                              *)
(*   [names (<<>> = embedded), exported, plenc |-> [form, idx], sql, json, other,  *)
(*    malformed]                                                                   *)
(* with plenc.form in "none" | "dash" | "index", sql / json in "none" | "dash" |   *)
(* "name".  Accepts(pre, flags, post) is the statement's relation: nothing but     *)
(* plenc tags may appear, existing tags stay, every eligible untagged field gets   *)
(* "-" (excluded through the sql / json options) or an index above the struct's    *)
(* maximum and different from every other index in the struct; unexported fields   *)
(* are left alone by default.                                                      *)
EXTENDS Integers, Sequences, FiniteSets, TLC

PF(form, idx) == [form |-> form, idx |-> idx]

Excluded(f, flags) == (flags.sql /\ f.sql = "dash") \/ (flags.json /\ f.json = "dash")
Eligible(f, flags) == f.plenc.form = "none" /\ (f.exported \/ ~flags.private)
Idx(s) == {s[i].plenc.idx : i \in {i \in 1..Len(s) : s[i].plenc.form = "index"}}
MaxIdx(s) == IF Idx(s) = {} THEN 0 ELSE CHOOSE m \in Idx(s) : \A x \in Idx(s) : x <= m
\* number of Go fields a declaration stands for (X, Y int is two; an embedded field is one)
Arity(f) == IF f.names = <<>> THEN 1 ELSE Len(f.names)

\* the field-level relation
FieldOKx(f, g, s, t, i, flags, strict) ==
  /\ g.names = f.names /\ g.exported = f.exported /\ g.sql = f.sql /\ g.json = f.json /\ g.other = f.other   \* nothing else changes
  /\ (f.plenc.form # "none" => g.plenc = f.plenc)                                                           \* existing plenc tags are kept
  /\ (f.plenc.form = "none" /\ ~Eligible(f, flags) => g.plenc.form = "none")                                \* unexported fields left alone
  /\ (Eligible(f, flags) /\ Excluded(f, flags) => g.plenc.form = "dash")
  /\ (Eligible(f, flags) /\ ~Excluded(f, flags) =>
        /\ g.plenc.form = "index" /\ g.plenc.idx > MaxIdx(s)                                                \* above everything already present
        /\ \A j \in 1..Len(t) : (j # i /\ t[j].plenc.form = "index") => t[j].plenc.idx # g.plenc.idx         \* unique in the struct
        /\ (strict => Arity(f) = 1))                                                                       \* one index cannot serve two fields
FieldOK(f, g, s, t, i, flags) == FieldOKx(f, g, s, t, i, flags, TRUE)
StructOK(s, t, flags) == Len(t) = Len(s) /\ \A i \in 1..Len(s) : FieldOK(s[i], t[i], s, t, i, flags)
\* finding F14b: the same relation without the arity clause
StructOKLenient(s, t, flags) == Len(t) = Len(s) /\ \A i \in 1..Len(s) : FieldOKx(s[i], t[i], s, t, i, flags, FALSE)
Accepts(pre, flags, post) == Len(post) = Len(pre) /\ \A k \in 1..Len(pre) : StructOK(pre[k], post[k], flags)

HasMalformed(pre) == \E k \in 1..Len(pre) : \E i \in 1..Len(pre[k]) : pre[k][i].malformed
\* a multi-name declaration that needs an index cannot be given one by adding a tag (the tag applies to all its names)
Unsatisfiable(pre, flags) == \E k \in 1..Len(pre) : \E i \in 1..Len(pre[k]) :
   Eligible(pre[k][i], flags) /\ ~Excluded(pre[k][i], flags) /\ Arity(pre[k][i]) > 1

\* a reference rewriting (the natural one: max+1, max+2, ... in declaration order)
RECURSIVE Assign(_, _, _, _)
Assign(s, i, next, flags) ==
  IF i > Len(s) THEN <<>>
  ELSE LET f == s[i] IN
       IF ~Eligible(f, flags) THEN <<f>> \o Assign(s, i + 1, next, flags)
       ELSE IF Excluded(f, flags) THEN <<[f EXCEPT !.plenc = PF("dash", 0)]>> \o Assign(s, i + 1, next, flags)
       ELSE <<[f EXCEPT !.plenc = PF("index", next)]>> \o Assign(s, i + 1, next + 1, flags)
RewriteFn(pre, flags) == [k \in 1..Len(pre) |-> Assign(pre[k], 1, MaxIdx(pre[k]) + 1, flags)]
=============================================================================
