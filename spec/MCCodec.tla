------------------------------- MODULE MCCodec -------------------------------
(* Model checking the documented design of the codec family and generating the *)
(* cases replayed on the real library (universe U1 of DESIGN.md section 5:     *)
(* every kind in every position with every boundary value).                    *)
(* A case is built by staged choices - position, kind, container length,       *)
(* values, configuration - so that TLC's workers share the enumeration.  At    *)
(* the terminal state the design invariants are evaluated on the model alone   *)
(* and the case is emitted as one JSON line for the harness.                   *)
EXTENDS PlencDecode, Json

CONSTANTS Cfgs,        \* set of configuration names to enumerate: subset of {"default","pt","pa","both"}
          Emit         \* TRUE: print cases
MCEnv == [none |-> [k |-> "bool"]]

VARIABLES st, c
vars == <<st, c>>

CfgOf(n) == CASE n = "default" -> [protoTime |-> FALSE, protoArrays |-> FALSE, nullProto |-> FALSE, flatUnsigned |-> FALSE, timeAsZigZag |-> FALSE, marker |-> "none"]
              [] n = "pt"      -> [protoTime |-> TRUE, protoArrays |-> FALSE, nullProto |-> FALSE, flatUnsigned |-> FALSE, timeAsZigZag |-> FALSE, marker |-> "none"]
              [] n = "pa"      -> [protoTime |-> FALSE, protoArrays |-> TRUE, nullProto |-> FALSE, flatUnsigned |-> FALSE, timeAsZigZag |-> FALSE, marker |-> "none"]
              [] n = "both"    -> [protoTime |-> TRUE, protoArrays |-> TRUE, nullProto |-> FALSE, flatUnsigned |-> FALSE, timeAsZigZag |-> FALSE, marker |-> "none"]

\* ---- kinds ----
KInt(w, opt) == [k |-> "int", w |-> w, opt |-> opt, of |-> ""]
KUint(w)     == [k |-> "uint", w |-> w, opt |-> "", of |-> ""]
KS(k, opt)   == [k |-> k, w |-> 0, opt |-> opt, of |-> ""]
KNull(of, opt) == [k |-> "null", w |-> 0, opt |-> opt, of |-> of]
Kinds == {KS("bool", "")} \cup {KInt(w, o) : w \in {8, 16, 32, 64}, o \in {"", "flat"}} \cup {KUint(w) : w \in {8, 16, 32, 64}}
         \cup {KS("f32", ""), KS("f64", ""), KS("string", ""), KS("string", "intern"), KS("bytes", ""), KS("time", "")}
         \cup {KNull(of, "") : of \in {"int", "bool", "float", "string", "time"}} \cup {KNull("string", "intern")}
RT(kd) == CASE kd.k \in {"int", "uint"} -> [k |-> kd.k, w |-> kd.w]
            [] kd.k = "null" -> [k |-> "null", of |-> kd.of]
            [] OTHER -> [k |-> kd.k]
IsVar(kd) == kd.k \in {"bool", "int", "uint"} \/ (kd.k = "null" /\ kd.of \in {"int", "bool"})
IsFix(kd) == kd.k \in {"f32", "f64"} \/ (kd.k = "null" /\ kd.of = "float")
Comparable(kd) == kd.k \in {"bool", "int", "uint", "string"}

\* ---- positions ----
LenPositions == {"L_str", "L_bytes", "L_packed", "L_counted", "L_nested3", "L_map", "L_structslice",
                 "LN_bytes", "LN_packed", "LN_counted", "LN_map"}    \* universe U4: length boundaries; LN_*: the same one struct down, where the field's Size feeds the parent's length prefix
Positions == {"top", "field1", "field15", "field16", "field2047", "field2048", "ptrfield", "slice", "slicefield", "sliceptr", "slice2",
              "mapkey", "mapval", "mapptrval", "nested", "slicestruct", "protoslice", "protomapval"} \cup LenPositions
HasField(p) == p \in {"field1", "field15", "field16", "field2047", "field2048", "ptrfield", "nested", "slicestruct"}
CONSTANT LenSweep      \* the container / string lengths swept by the U4 positions
SweepQuick == (0..4) \cup (118..134) \cup (250..262)
SweepThorough == (0..140) \cup (248..264) \cup (380..400)       \* every length up to past the one-byte / two-byte prefix boundary, the next boundary, and long ones
KindsFor(p) ==
  IF p \in LenPositions THEN {KS("string", "")} ELSE
  {kd \in Kinds :
     /\ (kd.opt # "" => HasField(p))
     /\ (kd.k = "null" => p \in {"field1", "field16", "nested", "mapval", "slicestruct"})
     /\ (p = "sliceptr" => ~IsFix(kd))
     /\ (p = "slice2" => IsVar(kd) \/ IsFix(kd))
     /\ (p = "mapkey" => Comparable(kd))
     /\ (p \in {"protoslice"} => ~IsVar(kd) /\ ~IsFix(kd))
     /\ (p \in {"slice", "slicefield", "slice2"} => ~(kd.k = "uint" /\ kd.w = 8))     \* the unnamed []uint8 is []byte
     /\ (p = "top" => kd.k # "null") }
\* container lengths: -1 = nil, 0 = empty, 1, 2
LensFor(p) == IF p \in {"LN_map", "LN_counted"} THEN LenSweep \cap ((0..4) \cup (124..130))     \* (the byte matcher is cubic in the number of entries)
              ELSE IF p \in LenPositions THEN LenSweep ELSE
              IF p \in {"slice", "slicefield", "sliceptr", "slice2", "mapkey", "mapval", "mapptrval", "slicestruct", "protoslice", "protomapval"}
              THEN {-1, 0, 1, 2} ELSE IF p = "ptrfield" THEN {-1, 1} ELSE {1}

\* ---- boundary values ----
P2(j) == LET f[i \in 0..64] == IF i = 0 THEN <<1>> ELSE Double(f[i - 1], 0) IN f[j]     \* 2^j as limbs
S(neg, mag) == [neg |-> neg /\ mag # <<>>, mag |-> mag]
IntVals(w) == {S(FALSE, <<>>), S(FALSE, <<1>>), S(TRUE, <<1>>), S(FALSE, Dec(P2(w - 1))), S(TRUE, P2(w - 1))}
              \cup UNION { {S(FALSE, Dec(P2(j))), S(FALSE, P2(j)), S(TRUE, P2(j)), S(TRUE, Inc(P2(j)))} : j \in {j \in {6, 13, 20, 27, 34, 41, 48, 55, 62} : j < w - 1} }
UintVals(w) == {S(FALSE, <<>>), S(FALSE, <<1>>), S(FALSE, Dec(P2(w)))}
               \cup UNION { {S(FALSE, Dec(P2(j))), S(FALSE, P2(j))} : j \in {j \in {7, 14, 21, 28, 35, 42, 49, 56, 63} : j < w} }
F32Vals == {<<0,0,0,0>>, <<0,0,0,128>>, <<0,0,128,63>>, <<0,0,192,127>>, <<0,0,128,127>>, <<1,0,0,0>>}
F64Vals == {<<0,0,0,0,0,0,0,0>>, <<0,0,0,0,0,0,0,128>>, <<0,0,0,0,0,0,240,63>>, <<1,0,0,0,0,0,248,127>>, <<0,0,0,0,0,0,240,255>>, <<1,0,0,0,0,0,0,0>>}
Rep(n, x) == [i \in 1..n |-> x]
StrVals == {<<>>, <<97>>, <<0>>, <<255, 254>>, Rep(127, 120), Rep(128, 121)}
BytesVals == {[nil |-> TRUE, b |-> <<>>], [nil |-> FALSE, b |-> <<>>], [nil |-> FALSE, b |-> <<0>>], [nil |-> FALSE, b |-> Rep(128, 7)]}
TimeVals == {[sec |-> ZeroSec, nsec |-> 0], [sec |-> ZeroInt, nsec |-> 0], [sec |-> S(TRUE, <<1>>), nsec |-> 999999999],
             [sec |-> S(FALSE, P2(31)), nsec |-> 1], [sec |-> S(TRUE, P2(33)), nsec |-> 500000000]}
BaseVals(kd) == CASE kd.k = "bool" -> {FALSE, TRUE}
                  [] kd.k = "int" -> IntVals(kd.w)
                  [] kd.k = "uint" -> UintVals(kd.w)
                  [] kd.k = "f32" -> F32Vals
                  [] kd.k = "f64" -> F64Vals
                  [] kd.k = "string" -> StrVals
                  [] kd.k = "bytes" -> BytesVals
                  [] kd.k = "time" -> TimeVals
NullKd(of) == CASE of = "int" -> KInt(64, "") [] of = "bool" -> KS("bool", "") [] of = "float" -> KS("f64", "")
                [] of = "string" -> KS("string", "") [] of = "time" -> KS("time", "")
Vals(kd) == IF kd.k = "null"
            THEN {[valid |-> FALSE, v |-> Zero(NullBase(kd.of))]} \cup {[valid |-> b, v |-> x] : b \in {TRUE}, x \in BaseVals(NullKd(kd.of))}
                 \cup {[valid |-> FALSE, v |-> CHOOSE x \in BaseVals(NullKd(kd.of)) : ~Omit(Cfg0, NullBase(kd.of), x)]}     \* stale payload
            ELSE BaseVals(kd)

\* ---- type and value at a position ----
FldN(nm, i, opt, t) == [i |-> i, n |-> nm, gn |-> nm, enc |-> TRUE, opt |-> opt, tag |-> "", t |-> t]
Fld(i, opt, t) == FldN("X", i, opt, t)
St(fs) == [k |-> "struct", name |-> "", f |-> fs]
IntT == [k |-> "int", w |-> 64]
StrT == [k |-> "string"]
TypeAt(p, kd) == LET K == RT(kd) IN
  CASE p = "top" -> K
    [] p = "field1" -> St(<<Fld(1, kd.opt, K)>>)
    [] p = "field16" -> St(<<Fld(16, kd.opt, K)>>)
    [] p = "field15" -> St(<<Fld(15, kd.opt, K)>>)
    [] p = "field2047" -> St(<<Fld(2047, kd.opt, K)>>)
    [] p = "L_str" -> St(<<Fld(1, "", StrT), FldN("Y", 2, "", IntT)>>)
    [] p = "L_bytes" -> St(<<Fld(1, "", [k |-> "bytes"]), FldN("Y", 2, "", IntT)>>)
    [] p = "L_packed" -> St(<<Fld(1, "", [k |-> "slice", e |-> [k |-> "uint", w |-> 16]]), FldN("Y", 2, "", IntT)>>)
    [] p = "L_counted" -> St(<<Fld(1, "", [k |-> "slice", e |-> StrT]), FldN("Y", 2, "", IntT)>>)
    [] p = "L_nested3" -> St(<<Fld(1, "", St(<<Fld(1, "", St(<<Fld(1, "", StrT)>>)), FldN("Y", 2, "", IntT)>>)), FldN("Y", 2, "", IntT)>>)
    [] p = "L_map" -> St(<<Fld(1, "", [k |-> "map", key |-> [k |-> "uint", w |-> 16], val |-> [k |-> "bool"]]), FldN("Y", 2, "", IntT)>>)
    [] p = "L_structslice" -> [k |-> "slice", e |-> St(<<Fld(1, "", StrT), FldN("Y", 2, "", IntT)>>)]
    [] p = "LN_bytes" -> St(<<Fld(1, "", St(<<Fld(1, "", [k |-> "bytes"]), FldN("Y", 2, "", IntT)>>)), FldN("Y", 2, "", IntT)>>)
    [] p = "LN_packed" -> St(<<Fld(1, "", St(<<Fld(1, "", [k |-> "slice", e |-> [k |-> "uint", w |-> 16]]), FldN("Y", 2, "", IntT)>>)), FldN("Y", 2, "", IntT)>>)
    [] p = "LN_counted" -> St(<<Fld(1, "", St(<<Fld(1, "", [k |-> "slice", e |-> StrT]), FldN("Y", 2, "", IntT)>>)), FldN("Y", 2, "", IntT)>>)
    [] p = "LN_map" -> St(<<Fld(1, "", St(<<Fld(1, "", [k |-> "map", key |-> [k |-> "uint", w |-> 16], val |-> [k |-> "bool"]]), FldN("Y", 2, "", IntT)>>)), FldN("Y", 2, "", IntT)>>)
    [] p = "field2048" -> St(<<Fld(2048, kd.opt, K)>>)
    [] p = "ptrfield" -> St(<<Fld(1, kd.opt, [k |-> "ptr", e |-> K])>>)
    [] p = "slice" -> [k |-> "slice", e |-> K]
    [] p = "slicefield" -> St(<<Fld(2, "", [k |-> "slice", e |-> K]), FldN("Y", 1, "", IntT)>>)
    [] p = "sliceptr" -> [k |-> "slice", e |-> [k |-> "ptr", e |-> K]]
    [] p = "slice2" -> [k |-> "slice", e |-> [k |-> "slice", e |-> K]]
    [] p = "mapkey" -> [k |-> "map", key |-> K, val |-> IntT]
    [] p = "mapval" -> [k |-> "map", key |-> StrT, val |-> K]
    [] p = "mapptrval" -> [k |-> "map", key |-> IntT, val |-> [k |-> "ptr", e |-> K]]
    [] p = "nested" -> St(<<Fld(2, "", St(<<Fld(1, kd.opt, K)>>)), FldN("Y", 3, "", IntT)>>)
    [] p = "slicestruct" -> [k |-> "slice", e |-> St(<<Fld(1, kd.opt, K), FldN("Y", 2, "", IntT)>>)]
    [] p = "protoslice" -> St(<<Fld(1, "proto", [k |-> "slice", e |-> K]), FldN("Y", 2, "", IntT)>>)
    [] p = "protomapval" -> St(<<Fld(3, "proto", [k |-> "map", key |-> StrT, val |-> K])>>)

Seven == S(FALSE, <<7>>)
Elems(n, a, b) == IF n <= 0 THEN <<>> ELSE IF n = 1 THEN <<a>> ELSE <<a, b>>
Sl(n, es) == [nil |-> (n = -1), e |-> es]
Mp(n, es) == [nil |-> (n = -1), m |-> es]
Pt(x) == [nil |-> FALSE, v |-> x]
ValAt(p, n, a, b) ==
  CASE p = "top" -> a
    [] p \in {"field1", "field15", "field16", "field2047", "field2048"} -> <<a>>
    [] p = "L_str" -> <<Rep(n, 120), Seven>>
    [] p = "L_bytes" -> <<[nil |-> FALSE, b |-> Rep(n, 9)], Seven>>
    [] p = "L_packed" -> <<Sl(n, Rep(n, S(FALSE, <<1>>))), Seven>>
    [] p = "L_counted" -> <<Sl(n, Rep(n, <<97>>)), Seven>>
    [] p = "L_nested3" -> << << <<Rep(n, 120)>>, Seven >>, Seven >>
    [] p = "L_map" -> <<Mp(n, [i \in 1..n |-> <<S(FALSE, NatLimbs(i)), TRUE>>]), Seven>>
    [] p = "L_structslice" -> Sl(1, << <<Rep(n, 120), Seven>>, <<Rep(n, 120), ZeroInt>> >>)
    [] p = "LN_bytes" -> << <<[nil |-> FALSE, b |-> Rep(n, 9)], Seven>>, Seven >>
    [] p = "LN_packed" -> << <<Sl(n, Rep(n, S(FALSE, <<1>>))), Seven>>, Seven >>
    [] p = "LN_counted" -> << <<Sl(n, Rep(n, <<97>>)), Seven>>, Seven >>
    [] p = "LN_map" -> << <<Mp(n, [i \in 1..n |-> <<S(FALSE, NatLimbs(i)), TRUE>>]), Seven>>, Seven >>
    [] p = "ptrfield" -> IF n = -1 THEN <<[nil |-> TRUE, v |-> <<>>]>> ELSE <<Pt(a)>>
    [] p = "slice" -> Sl(n, Elems(n, a, b))
    [] p = "slicefield" -> <<Sl(n, Elems(n, a, b)), Seven>>
    [] p = "sliceptr" -> Sl(n, Elems(n, Pt(a), [nil |-> TRUE, v |-> <<>>]))
    [] p = "slice2" -> Sl(n, Elems(n, Sl(2, <<a, b>>), Sl(0, <<>>)))
    [] p = "mapkey" -> Mp(n, Elems(n, <<a, Seven>>, <<b, ZeroInt>>))
    [] p = "mapval" -> Mp(n, Elems(n, <<<<107>>, a>>, <<<<>>, b>>))
    [] p = "mapptrval" -> Mp(n, Elems(n, <<ZeroInt, Pt(a)>>, <<Seven, [nil |-> TRUE, v |-> <<>>]>>))
    [] p = "nested" -> << <<a>>, Seven >>
    [] p = "slicestruct" -> Sl(n, Elems(n, <<a, Seven>>, <<b, ZeroInt>>))
    [] p = "protoslice" -> <<Sl(n, Elems(n, a, b)), Seven>>
    [] p = "protomapval" -> <<Mp(n, Elems(n, <<<<107>>, a>>, <<<<>>, b>>))>>
NeedsB(p, n) == \/ (n = 2 /\ p \in {"slice", "slicefield", "slice2", "mapkey", "mapval", "slicestruct", "protoslice", "protomapval"})
                \/ (p = "slice2" /\ n >= 1)

Init == st = "pos" /\ c = [pos |-> "", kd |-> <<>>, n |-> 1, a |-> <<>>, b |-> <<>>, cfg |-> ""]
Next ==
  \/ st = "pos"  /\ \E p \in Positions : c' = [c EXCEPT !.pos = p] /\ st' = "kind"
  \/ st = "kind" /\ \E kd \in KindsFor(c.pos) : c' = [c EXCEPT !.kd = kd] /\ st' = "len"
  \/ st = "len"  /\ \E n \in LensFor(c.pos) : c' = [c EXCEPT !.n = n] /\ st' = "a"
  \/ st = "a"    /\ \E a \in (IF c.pos \in LenPositions THEN {<<>>} ELSE Vals(c.kd)) : c' = [c EXCEPT !.a = a, !.b = a] /\ st' = IF NeedsB(c.pos, c.n) THEN "b" ELSE "cfg"
  \/ st = "b"    /\ \E b \in Vals(c.kd) : (c.pos = "mapkey" => b # c.a) /\ c' = [c EXCEPT !.b = b] /\ st' = "cfg"
  \/ st = "cfg"  /\ \E g \in Cfgs : (g \in {"pa", "both"} => Resolve(TypeAt(c.pos, c.kd)).k = "struct")
                                    /\ c' = [c EXCEPT !.cfg = g] /\ st' = "done"
Spec == Init /\ [][Next]_vars

\* ---- the design invariants, evaluated on complete cases ----
RawT == TypeAt(c.pos, c.kd)
T == Bake(RawT, "")
V == ValAt(c.pos, c.n, c.a, c.b)
G == CfgOf(c.cfg)
Done == st = "done"

\* C01 in the model: the format is uniquely decodable and the listed normalisations are the only losses
RoundTrip == Done => LET d == Decode(G, T, Encode(G, T, V), Zero(T)) IN d.ok /\ Eq(T, d.v, Norm(G, T, V, TRUE))
\* C02 / C05 in the model: every struct encoding can be walked to its exact end; the matcher accepts the model's own encoding
Walkable == Done /\ Resolve(T).k = "struct" => Frames(Encode(G, T, V)).ok
MatcherSound == Done => EncMatches(G, T, V, Encode(G, T, V))
\* C12 in the model: in the fully proto-compatible mode only wire types 0,1,2,5 occur at the top level of a struct
\* (nested levels are checked by MCProto)
ProtoTop == Done /\ c.cfg = "both" /\ c.pos \notin {"slicefield", "mapkey", "mapval", "mapptrval", "L_map", "LN_map"} /\ Resolve(T).k = "struct"
            => ProtoFrames(Encode(G, T, V)).ok
\* normalisation is idempotent
NormIdem == Done => Eq(T, Norm(G, T, Norm(G, T, V, TRUE), TRUE), Norm(G, T, V, TRUE))

\* C12 in the model: each option changes only its own encodings
RECURSIVE HasKind(_, _, _)
HasKind(T0, P(_), fuel) == LET TT == Resolve(T0) IN
  P(TT) \/ (fuel > 0 /\ CASE TT.k \in {"ptr", "slice"} -> HasKind(TT.e, P, fuel - 1)
                           [] TT.k = "map" -> HasKind(TT.key, P, fuel - 1) \/ HasKind(TT.val, P, fuel - 1)
                           [] TT.k = "struct" -> \E i \in 1..Len(TT.f) : HasKind(TT.f[i].t, P, fuel - 1)
                           [] OTHER -> FALSE)
IsTimeT(X) == X.k = "time"
IsLenSlice(X) == X.k = "slice" /\ WT(Cfg0, X.e) = WTLength
OptionLocal == Done =>
  /\ (~HasKind(T, IsTimeT, 6) => Encode([G EXCEPT !.protoTime = ~@], T, V) = Encode(G, T, V))
  /\ (~HasKind(T, IsLenSlice, 6) => Encode([G EXCEPT !.protoArrays = ~@], T, V) = Encode(G, T, V))
\* and the default mode reads the repeated form of a slice
CrossRead == Done /\ G.protoArrays /\ Resolve(T).k = "struct" =>
  LET d == Decode([G EXCEPT !.protoArrays = FALSE], T, Encode(G, T, V), Zero(T)) IN d.ok /\ Eq(T, d.v, Norm(G, T, V, TRUE))

CaseJson == ToJson([ev |-> "codec", T |-> RawT, v |-> V, cfgname |-> c.cfg, u |-> <<c.pos, ToString(c.n)>>])
EmitCase == (Done /\ Emit) => PrintT(<<"CASE", CaseJson>>)
=============================================================================
