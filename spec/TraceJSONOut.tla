------------------------------ MODULE TraceJSONOut ------------------------------
(* Judges "jsonout" events (C15): the parse of what the real JSONOutput emitted      *)
(* must equal the call tree the specification derives from the recorded calls        *)
(* (TreeOf of module JSONOutput), leaf by leaf: integers exact (decimal text),       *)
(* floats bit-exact, valid UTF-8 strings and names identical, times the same         *)
(* instant, raw literals verbatim; any byte string still gives valid JSON.           *)
EXTENDS JSONTree, PlencNum, Json

CONSTANTS TraceFile, EnvFile, OpenFindings, Env
EnvDef == [none |-> 0]
Trace == ndJsonDeserialize(TraceFile)
VARIABLES l, bad
tvars == <<l, bad>>

\* abstract calls for TreeOf: scalars carry the whole call record, names their bytes
Abs(c) == IF c.op \in {"so", "eo", "sa", "ea"} THEN [op |-> c.op, x |-> ""]
          ELSE IF c.op = "nf" THEN [op |-> "nf", x |-> c]
          ELSE [op |-> "sc", x |-> c]
AbsCalls(cs) == [i \in 1..Len(cs) |-> Abs(cs[i])]

NameMatch(c, b) == IF c.u8 THEN b = c.b ELSE TRUE          \* arbitrary bytes: only validity of the document is required
LeafMatch(c, o) ==
  CASE c.op \in {"i64", "u64"} -> o.k = "num" /\ o.t = DecText(c.n)
    [] c.op = "f64" -> o.k = "num" /\ o.f64 = c.bits
    [] c.op = "f32" -> o.k = "num" /\ o.f32 = c.bits
    [] c.op = "str" -> o.k = "str" /\ NameMatch(c, o.b)
    [] c.op = "bool" -> o.k = "bool" /\ o.v = c.flag
    [] c.op = "time" -> o.k = "str" /\ o.tm.ok /\ o.tm.sec.neg = (c.n.neg /\ c.n.mag # <<>>) /\ o.tm.sec.mag = c.n.mag /\ o.tm.nsec = c.nsec
    [] c.op = "raw" -> o.k = "num" /\ o.t = c.b
    [] OTHER -> FALSE
RECURSIVE TreeMatch(_, _)
TreeMatch(e, o) ==
  CASE e.k = "s" -> LeafMatch(e.v, o)
    [] e.k = "o" -> o.k = "obj" /\ Len(o.m) = Len(e.m)
                    /\ \A i \in 1..Len(e.m) : NameMatch(e.m[i][1], o.m[i][1]) /\ TreeMatch(e.m[i][2], o.m[i][2])
    [] e.k = "a" -> o.k = "arr" /\ Len(o.e) = Len(e.e) /\ \A i \in 1..Len(e.e) : TreeMatch(e.e[i], o.e[i])
RECURSIVE Where(_, _)
Where(e, o) ==       \* first place where the trees differ, for the verdict message
  CASE e.k = "s" -> IF LeafMatch(e.v, o) THEN "" ELSE "leaf-" \o e.v.op
    [] e.k = "o" -> IF o.k # "obj" THEN "not-an-object" ELSE IF Len(o.m) # Len(e.m) THEN "member-count"
                    ELSE LET wrong == {i \in 1..Len(e.m) : ~(NameMatch(e.m[i][1], o.m[i][1]) /\ TreeMatch(e.m[i][2], o.m[i][2]))} IN
                         IF wrong = {} THEN "" ELSE LET i == CHOOSE x \in wrong : \A y \in wrong : x <= y IN
                              IF ~NameMatch(e.m[i][1], o.m[i][1]) THEN "name" ELSE "." \o Where(e.m[i][2], o.m[i][2])
    [] e.k = "a" -> IF o.k # "arr" THEN "not-an-array" ELSE IF Len(o.e) # Len(e.e) THEN "element-count"
                    ELSE LET wrong == {i \in 1..Len(e.e) : ~TreeMatch(e.e[i], o.e[i])} IN
                         IF wrong = {} THEN "" ELSE LET i == CHOOSE x \in wrong : \A y \in wrong : x <= y IN "[]" \o Where(e.e[i], o.e[i])

JudgeC15(e) ==
  IF e.out.kind \in {"fatal", "timeout", "oom"} THEN "crash-" \o e.out.kind
  ELSE IF e.out.panic THEN "panic:" \o e.out.where
  ELSE LET exp == TreeOf(AbsCalls(e.calls)) IN
       IF exp = <<>> THEN "ok"                       \* not a well-nested sequence: outside the statement (never generated)
       ELSE IF ~e.out.valid THEN "invalid-json" \o (IF e.pre # <<>> THEN "-after-reset" ELSE "")
       ELSE IF e.out.perr # "" THEN "unparsable"
       ELSE IF TreeMatch(exp[1], e.out.tree) THEN "ok"
       ELSE "tree:" \o Where(exp[1], e.out.tree) \o (IF e.pre # <<>> THEN "-after-reset" ELSE "")

Init == l = 1 /\ bad = 0
Next == /\ l <= Len(Trace)
         /\ LET e == Trace[l]  v == JudgeC15(e) IN
            /\ (v # "ok" => PrintT("VERDICT " \o ToString(e.id) \o " C15 " \o v))
            /\ bad' = bad + (IF v = "ok" THEN 0 ELSE 1)
         /\ l' = l + 1
Spec == Init /\ [][Next]_tvars
Finished == (l = Len(Trace) + 1) => PrintT(<<"JUDGED", Len(Trace), bad>>)
=============================================================================
