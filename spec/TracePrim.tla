------------------------------- MODULE TracePrim -------------------------------
(* Judges recorded executions of the plenccore primitives ("prim" events, C18).   *)
EXTENDS PlencWire, Json, TLC

CONSTANTS TraceFile, EnvFile, OpenFindings, Env
EnvDef == [none |-> 0]
Trace == ndJsonDeserialize(TraceFile)
VARIABLES l, bad
vars == <<l, bad>>

Sgn(neg, mag) == [neg |-> neg /\ mag # <<>>, mag |-> mag]
SEq(a, b) == a.neg = b.neg /\ a.mag = b.mag

JudgeVarUint(e) == LET o == e.out  a == AppendVarUint(e.u) IN
  IF o.app # a THEN "varuint-append"
  ELSE IF o.size # Len(a) THEN "varuint-size"
  ELSE IF o.readN # Len(a) \/ o.readV # e.u THEN "varuint-read"
  ELSE IF o.readN2 # Len(a) \/ o.readV2 # e.u THEN "varuint-read-past-end"
  ELSE IF ~o.prefixKept THEN "varuint-append-prefix"
  ELSE IF ~SEq(o.zagzig, ZagZig(e.u)) THEN "zagzig"
  ELSE IF o.zigzagBack # e.u THEN "zigzag-not-inverse"
  ELSE "ok"
JudgeVarInt(e) == LET o == e.out  i == Sgn(e.fn = "varint-", e.u)  a == AppendVarInt(i) IN
  IF o.app # a THEN "varint-append"
  ELSE IF o.size # Len(a) THEN "varint-size"
  ELSE IF o.readN # Len(a) \/ ~SEq(o.readV, i) THEN "varint-read"
  ELSE IF o.zigzag # ZigZag(i) THEN "zigzag"
  ELSE IF ~SEq(o.zagzigBack, i) THEN "zagzig-not-inverse"
  ELSE "ok"
JudgeTag(e) ==
  LET res == [j \in 1..Len(e.out.tags) |->
                LET t == e.out.tags[j]  a == TagL(t.wt, e.u) IN
                IF t.app # a THEN "tag-append" ELSE IF t.size # Len(a) THEN "tag-size"
                ELSE IF t.rn # Len(a) \/ t.rwt # t.wt \/ t.ridx # e.u THEN "tag-read" ELSE "ok"]
      wrong == {j \in 1..Len(res) : res[j] # "ok"} IN
  IF wrong = {} THEN "ok" ELSE res[CHOOSE j \in wrong : TRUE]
JudgeSkip(e) == LET o == e.out IN
  IF SkipAllowed(e.data, e.wt, [err |-> (o.err # ""), n |-> o.n]) THEN
     (IF o.err = "" /\ (o.n < 0 \/ o.n > Len(e.data)) THEN "skip-overrun" ELSE "ok")
  ELSE IF SkipLen(e.data, e.wt) >= 0 THEN (IF o.err # "" THEN "skip-rejects-wellformed" ELSE "skip-wrong-length")
  ELSE IF o.n > Len(e.data) THEN "skip-overrun" ELSE "skip-accepts-malformed"

JudgeC18(e) ==
  IF e.out.kind \in {"fatal", "timeout", "oom"} THEN "crash-" \o e.out.kind
  ELSE IF e.out.panic THEN "panic"
  ELSE IF e.out.skip THEN "ok"
  ELSE CASE e.fn = "varuint" -> JudgeVarUint(e)
         [] e.fn \in {"varint+", "varint-"} -> JudgeVarInt(e)
         [] e.fn = "tag" -> JudgeTag(e)
         [] e.fn = "skip" -> JudgeSkip(e)

Init == l = 1 /\ bad = 0
Next == /\ l <= Len(Trace)
        /\ LET e == Trace[l]  v == JudgeC18(e) IN
           /\ (v # "ok" => PrintT("VERDICT " \o ToString(e.id) \o " " \o "C18" \o " " \o v))
           /\ bad' = bad + (IF v = "ok" THEN 0 ELSE 1)
        /\ l' = l + 1
Spec == Init /\ [][Next]_vars
Finished == (l = Len(Trace) + 1) => PrintT(<<"JUDGED", Len(Trace), bad>>)
=============================================================================
