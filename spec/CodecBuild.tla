------------------------------- MODULE CodecBuild -------------------------------
(* Fine-grained model of codec construction: Plenc.CodecForTypeRegistry,           *)
(* BuildStructCodec and BuildMapCodec, one action per segment between two verif     *)
(* yield hooks ("load", "wrap", "mapkey", "mapval", "field", "fieldret", "flush", "flushed", "store", "stored").  Several    *)
(* processes request codecs for related types against one shared registry at the    *)
(* same time.                                                                       *)
(*                                                                                  *)
(* Codecs built inside a struct build go to a pending list carried by the overlay   *)
(* registry of that build: visible to the build's own lookups, published with       *)
(* LoadOrStore when the outermost struct codec is complete, dropped when it fails.  *)
(* (Before the repair recorded as finding F07 they went straight to the shared      *)
(* registry: TLC finds the use of a half-built struct codec in 9 steps in that      *)
(* variant, see DESIGN.md.)                                                         *)
EXTENDS Integers, Sequences, FiniteSets, TLC

CONSTANTS Procs, Want,      \* Want : [Procs -> type id]: what each process asks for
          Publish,          \* "pending" (the repaired protocol) or "direct" (the protocol before the repair)
          TypeDef           \* node id -> definition; a node is a (Go type, tag option) pair, the key of the registry
\* kinds: "basic"       a codec is registered for the node: Load hits at once
\*        "named"       a named type of a basic kind: looked up under the basic type, then stored under its own key
\*        "wrap"        pointer / slice around elem; bad = no wrapper exists for this element codec (found when the element's codec is back)
\*        "map"         key and val requested one after the other (BuildMapCodec)
\*        "struct"      fields (the encoded ones, in declaration order); dup = two fields share an index (found after the last field)
\*        "unsupported" no codec can be built: the request fails in its first segment
TypeIds == DOMAIN TypeDef
BASIC == -1
ERR   == -2

VARIABLES reg,       \* the shared registry: type -> codec id (0 = none)
          heap,      \* codec objects: [kind, typ, sub (codec ids of fields / element), done]
          stack,     \* per process: call stack of frames [typ, ov (overlay chain), pc, cid, i]
          ret,       \* per process: value returned by the call that just finished
          phase,     \* build | use | done
          result,    \* what the process's top-level request returned
          torn,      \* some process used a codec graph containing an incomplete struct codec
          pending    \* per process: codecs built inside the outermost struct build, not yet published
vars == <<reg, heap, stack, ret, phase, result, torn, pending>>

Frame(t, ov) == [typ |-> t, ov |-> ov, pc |-> "load", cid |-> 0, i |-> 1]

Init == /\ reg = [t \in TypeIds |-> IF TypeDef[t].kind = "basic" THEN BASIC ELSE 0]
        /\ heap = <<>>
        /\ stack = [p \in Procs |-> <<Frame(Want[p], <<>>)>>]
        /\ ret = [p \in Procs |-> 0]
        /\ phase = [p \in Procs |-> "build"]
        /\ result = [p \in Procs |-> 0]
        /\ torn = FALSE
        /\ pending = [p \in Procs |-> <<>>]

RECURSIVE LookupOv(_, _)
LookupOv(ov, t) == IF ov = <<>> THEN 0 ELSE IF ov[1][1] = t THEN ov[1][2] ELSE LookupOv(Tail(ov), t)
\* wrappedCodecRegistry.Load: the struct under construction, then the pending list, then the shared registry
InBuild(p) == \E k \in 1..Len(stack[p]) : stack[p][k].pc \in {"fieldret"}
Lookup(p, ov, t) == LET o == LookupOv(ov, t) IN
                    IF o # 0 THEN o
                    ELSE LET q == IF Publish = "pending" /\ ov # <<>> THEN LookupOv(pending[p], t) ELSE 0 IN IF q # 0 THEN q ELSE reg[t]

Top(p) == stack[p][Len(stack[p])]
SetTop(p, f) == [stack EXCEPT ![p] = [@ EXCEPT ![Len(@)] = f]]
Push(p, f, g) == [stack EXCEPT ![p] = Append([@ EXCEPT ![Len(@)] = f], g)]

Return(p, v) ==
  /\ ret' = [ret EXCEPT ![p] = v]
  /\ IF Len(stack[p]) = 1
       THEN /\ stack' = [stack EXCEPT ![p] = <<>>]
            /\ phase' = [phase EXCEPT ![p] = "use"]
            /\ result' = [result EXCEPT ![p] = v]
       ELSE /\ stack' = [stack EXCEPT ![p] = SubSeq(@, 1, Len(@) - 1)]
            /\ UNCHANGED <<phase, result>>

\* a failed request: the error travels up to the outermost caller; the outermost struct build's pending list dies with it
Fail(p, f) == /\ Return(p, ERR)
              /\ pending' = [pending EXCEPT ![p] = IF f.ov = <<>> THEN <<>> ELSE @]

\* hook "load": registry.Load; a hit returns, a miss descends by kind
Load(p) == LET f == Top(p)  d == TypeDef[f.typ]  c == Lookup(p, f.ov, f.typ) IN
  /\ phase[p] = "build" /\ f.pc = "load"
  /\ IF c # 0 THEN Return(p, c) /\ UNCHANGED <<reg, heap, torn, pending>>
     ELSE CASE d.kind = "unsupported" -> Return(p, ERR) /\ UNCHANGED <<reg, heap, torn, pending>>
            [] d.kind = "named" ->
                 /\ stack' = SetTop(p, [f EXCEPT !.pc = "store", !.cid = BASIC])
                 /\ UNCHANGED <<reg, heap, ret, phase, result, torn, pending>>
            [] d.kind = "wrap" ->
                 /\ stack' = Push(p, [f EXCEPT !.pc = "wrap"], Frame(d.elem, f.ov))
                 /\ UNCHANGED <<reg, heap, ret, phase, result, torn, pending>>
            [] d.kind = "map" ->
                 /\ stack' = Push(p, [f EXCEPT !.pc = "mapkey"], Frame(d.key, f.ov))
                 /\ UNCHANGED <<reg, heap, ret, phase, result, torn, pending>>
            [] d.kind = "struct" ->
                 LET cid == Len(heap) + 1 IN
                 /\ heap' = Append(heap, [kind |-> "struct", typ |-> f.typ, sub |-> [j \in 1..Len(d.fields) |-> 0], done |-> FALSE])
                 /\ stack' = SetTop(p, [f EXCEPT !.pc = "field", !.cid = cid, !.i = 1])
                 /\ UNCHANGED <<reg, ret, phase, result, torn, pending>>
\* hook "wrap": the element's codec is back; build the wrapper around it
Wrap(p) == LET f == Top(p) IN
  /\ phase[p] = "build" /\ f.pc = "wrap"
  /\ IF ret[p] = ERR \/ TypeDef[f.typ].bad THEN Return(p, ERR) /\ UNCHANGED <<reg, heap, torn, pending>>
     ELSE LET cid == Len(heap) + 1 IN
          /\ heap' = Append(heap, [kind |-> "wrap", typ |-> f.typ, sub |-> <<ret[p]>>, done |-> TRUE])
          /\ stack' = SetTop(p, [f EXCEPT !.pc = "store", !.cid = cid])
          /\ UNCHANGED <<reg, ret, phase, result, torn, pending>>
\* hooks "mapkey" / "mapval": BuildMapCodec asks for the key codec, then the value codec, then builds the map codec
MapKey(p) == LET f == Top(p)  d == TypeDef[f.typ] IN
  /\ phase[p] = "build" /\ f.pc = "mapkey"
  /\ IF ret[p] = ERR THEN Return(p, ERR) /\ UNCHANGED <<reg, heap, torn, pending>>
     ELSE /\ stack' = Push(p, [f EXCEPT !.pc = "mapval", !.i = ret[p]], Frame(d.val, f.ov))      \* i holds the key codec meanwhile
          /\ UNCHANGED <<reg, heap, ret, phase, result, torn, pending>>
MapVal(p) == LET f == Top(p) IN
  /\ phase[p] = "build" /\ f.pc = "mapval"
  /\ IF ret[p] = ERR THEN Return(p, ERR) /\ UNCHANGED <<reg, heap, torn, pending>>
     ELSE LET cid == Len(heap) + 1 IN
          /\ heap' = Append(heap, [kind |-> "wrap", typ |-> f.typ, sub |-> <<f.i, ret[p]>>, done |-> TRUE])
          /\ stack' = SetTop(p, [f EXCEPT !.pc = "store", !.cid = cid])
          /\ UNCHANGED <<reg, ret, phase, result, torn, pending>>
\* hook "field": next field's codec is requested through the overlay registry; after the last field the index table is built
Field(p) == LET f == Top(p)  d == TypeDef[f.typ] IN
  /\ phase[p] = "build" /\ f.pc = "field"
  /\ IF f.i > Len(d.fields)
       THEN IF d.dup THEN Fail(p, f) /\ UNCHANGED <<reg, heap, torn>>          \* the index table finds two fields with one index
            ELSE /\ heap' = [heap EXCEPT ![f.cid].done = TRUE]
                 /\ stack' = SetTop(p, [f EXCEPT !.pc = "flush"])
                 /\ UNCHANGED <<reg, ret, phase, result, torn, pending>>
       ELSE /\ stack' = Push(p, [f EXCEPT !.pc = "fieldret"], Frame(d.fields[f.i], <<<<f.typ, f.cid>>>> \o f.ov))
            /\ UNCHANGED <<reg, heap, ret, phase, result, torn, pending>>
\* hook "fieldret"
FieldRet(p) == LET f == Top(p) IN
  /\ phase[p] = "build" /\ f.pc = "fieldret"
  /\ IF ret[p] = ERR THEN Fail(p, f) /\ UNCHANGED <<reg, heap, torn>>
     ELSE /\ heap' = [heap EXCEPT ![f.cid].sub[f.i] = ret[p]]
          /\ stack' = SetTop(p, [f EXCEPT !.pc = "field", !.i = f.i + 1])
          /\ UNCHANGED <<reg, ret, phase, result, torn, pending>>
\* hook "flush": the outermost struct build publishes what was built on the way (LoadOrStore per entry)
RECURSIVE FlushInto(_, _)
FlushInto(r, pend) == IF pend = <<>> THEN r
                      ELSE FlushInto(IF r[pend[1][1]] = 0 THEN [r EXCEPT ![pend[1][1]] = pend[1][2]] ELSE r, Tail(pend))
Flush(p) == LET f == Top(p) IN
  /\ phase[p] = "build" /\ f.pc = "flush"
  /\ IF f.ov = <<>> /\ Publish = "pending"
       THEN reg' = FlushInto(reg, pending[p]) /\ pending' = [pending EXCEPT ![p] = <<>>]
       ELSE UNCHANGED <<reg, pending>>
  /\ stack' = SetTop(p, [f EXCEPT !.pc = "flushed"])
  /\ UNCHANGED <<heap, ret, phase, result, torn>>
\* hook "flushed": what was built on the way is public now, the struct codec itself is not yet; BuildStructCodec returns it
Flushed(p) == LET f == Top(p) IN
  /\ phase[p] = "build" /\ f.pc = "flushed"
  /\ stack' = SetTop(p, [f EXCEPT !.pc = "store"])
  /\ UNCHANGED <<reg, heap, ret, phase, result, torn, pending>>
\* hook "store": registry.StoreOrSwap on the registry this call was given
Store(p) == LET f == Top(p) IN
  /\ phase[p] = "build" /\ f.pc = "store"
  /\ IF Publish = "pending" /\ f.ov # <<>>
       THEN \* inside a struct build: the overlay keeps it pending
            LET q == Lookup(p, f.ov, f.typ) IN
            /\ pending' = [pending EXCEPT ![p] = IF q = 0 THEN Append(@, <<f.typ, f.cid>>) ELSE @]
            /\ reg' = reg
            /\ stack' = SetTop(p, [f EXCEPT !.pc = "stored", !.cid = IF q = 0 THEN f.cid ELSE q])
       ELSE /\ reg' = IF reg[f.typ] = 0 THEN [reg EXCEPT ![f.typ] = f.cid] ELSE reg
            /\ pending' = pending
            /\ stack' = SetTop(p, [f EXCEPT !.pc = "stored", !.cid = IF reg[f.typ] = 0 THEN f.cid ELSE reg[f.typ]])
  /\ UNCHANGED <<heap, ret, phase, result, torn>>
\* hook "stored": the codec (or the one that won the race) is in the registry; the request returns it
Stored(p) == LET f == Top(p) IN
  /\ phase[p] = "build" /\ f.pc = "stored"
  /\ Return(p, f.cid)
  /\ UNCHANGED <<reg, heap, torn, pending>>

RECURSIVE Reach(_, _)
Reach(todo, seen) == IF todo = {} THEN seen
   ELSE LET c == CHOOSE x \in todo : TRUE
            kids == IF c > 0 THEN {heap[c].sub[j] : j \in DOMAIN heap[c].sub} \ {0, BASIC} ELSE {}
        IN Reach((todo \cup kids) \ (seen \cup {c}), seen \cup {c})
Incomplete(c) == c > 0 /\ heap[c].kind = "struct" /\ ~heap[c].done
HalfWired(c) == c > 0 /\ \E j \in DOMAIN heap[c].sub : heap[c].sub[j] = 0 /\ heap[c].done

\* the codec is used (Marshal / Unmarshal walks the codec graph)
Use(p) ==
  /\ phase[p] = "use"
  /\ phase' = [phase EXCEPT ![p] = "done"]
  /\ torn' = (torn \/ (result[p] > 0 /\ \E c \in Reach({result[p]}, {}) : Incomplete(c)))
  /\ UNCHANGED <<reg, heap, stack, ret, result, pending>>

Step(p) == Load(p) \/ Wrap(p) \/ MapKey(p) \/ MapVal(p) \/ Field(p) \/ FieldRet(p) \/ Flush(p) \/ Flushed(p) \/ Store(p) \/ Stored(p)
Next == \E p \in Procs : Step(p) \/ Use(p)
Spec == Init /\ [][Next]_vars
FairSpec == Spec /\ \A p \in Procs : WF_vars(Step(p) \/ Use(p))

\* C07: no process ever uses a struct codec that is not completely built
NoIncompleteUse == ~torn
\* everything reachable from the shared registry is complete, or owned by a build still in progress - also after a failed build (C08)
InProgress(c) == \E p \in Procs : \E k \in 1..Len(stack[p]) : stack[p][k].cid = c
RegistryClosed == \A t \in TypeIds : reg[t] > 0 => \A c \in Reach({reg[t]}, {}) : Incomplete(c) => InProgress(c)
\* with the repaired protocol even that is too weak a statement: nothing incomplete is ever reachable from the registry
RegistryComplete == Publish = "pending" => \A t \in TypeIds : reg[t] > 0 => \A c \in Reach({reg[t]}, {}) : ~Incomplete(c)
\* every process gets the result the sequential specification gives: a codec for supported types, an error for F
RECURSIVE MustFail(_, _)
MustFail(t, seen) == LET d == TypeDef[t] IN
  IF t \in seen THEN FALSE
  ELSE CASE d.kind = "unsupported" -> TRUE
         [] d.kind = "wrap" -> d.bad \/ MustFail(d.elem, seen \cup {t})
         [] d.kind = "map" -> MustFail(d.key, seen \cup {t}) \/ MustFail(d.val, seen \cup {t})
         [] d.kind = "struct" -> d.dup \/ \E j \in 1..Len(d.fields) : MustFail(d.fields[j], seen \cup {t})
         [] OTHER -> FALSE
SameResult == \A p \in Procs : phase[p] \in {"use", "done"} => (result[p] = ERR) = MustFail(Want[p], {})
\* construction terminates (recursive families included)
Terminates == <>(\A p \in Procs : phase[p] = "done")
=============================================================================
