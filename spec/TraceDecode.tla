------------------------------ MODULE TraceDecode ------------------------------
(* Judges "evolve" events: bytes marshalled from S are unmarshalled into a         *)
(* pre-populated variable of type S2.  C03: S2 derived from S by removing, adding, *)
(* renaming, reordering fields; C10: S2 = S, the target already holds data.        *)
(* The expectation is the model's Decode (DESIGN.md A.4) applied to the recorded   *)
(* bytes and the recorded prior target.                                            *)
EXTENDS KnownDeviations, Json

CONSTANTS TraceFile, EnvFile
EnvDef == JsonDeserialize(EnvFile)
Trace == ndJsonDeserialize(TraceFile)
VARIABLES l, bad
vars == <<l, bad>>

Crashed(e) == e.out.kind \in {"fatal", "timeout", "oom"}
McCfg(e) == [protoTime |-> e.cfg.protoTime, protoArrays |-> e.cfg.protoArrays, nullProto |-> FALSE, flatUnsigned |-> FALSE, timeAsZigZag |-> FALSE, marker |-> "none"]

\* whether a re-used slice that ends up empty is nil or not is left open: compare after normalising empties
Same(cfg, T, a, b) == Eq(T, Norm(cfg, T, a, FALSE), Norm(cfg, T, b, FALSE))

JudgeMerge(e) ==
  LET cfg == McCfg(e)  S == Bake(e.S, "")  T2 == Bake(e.S2, "") IN
  IF Crashed(e) THEN "crash-" \o e.out.kind
  ELSE IF e.out.panic THEN "panic-" \o e.out.stage
  ELSE IF e.out.merr # "" THEN "marshal-error"
  ELSE IF e.out.uerr # "" THEN "decode-error"
  ELSE IF ~e.out.inputIntact THEN "input-modified"
  ELSE IF ~e.out.sane THEN "decoded-slice-has-len-above-cap"
  ELSE LET d == Decode(cfg, T2, e.out.bytes, e.prior) IN
       IF ~d.ok THEN "bytes-not-decodable-by-model"
       ELSE IF Same(cfg, T2, e.out.back, d.v) THEN "ok"
       ELSE "value@" \o Diff(T2, Norm(cfg, T2, e.out.back, FALSE), Norm(cfg, T2, d.v, FALSE))

Judge(e) == LET v == JudgeMerge(e) IN << <<"C03", v>>, <<"C10", v>> >>
NonOk(vs) == {i \in 1..Len(vs) : vs[i][2] # "ok"}

Init == l = 1 /\ bad = 0
Next == /\ l <= Len(Trace)
        /\ LET e == Trace[l]  vs == Judge(e) IN
           /\ \A i \in NonOk(vs) : PrintT("VERDICT " \o ToString(e.id) \o " " \o vs[i][1] \o " " \o vs[i][2])
           /\ bad' = bad + (IF NonOk(vs) = {} THEN 0 ELSE 1)
        /\ l' = l + 1
Spec == Init /\ [][Next]_vars
Finished == (l = Len(Trace) + 1) => PrintT(<<"JUDGED", Len(Trace), bad>>)
=============================================================================
