------------------------------ MODULE PlencTypes ------------------------------
(* Abstract type definitions, the codec-selection rules that matter for the    *)
(* encoding (DESIGN.md A.1) and zero values.                                   *)
(*                                                                             *)
(* A raw type (as the harness and the generators write it) is a record with a  *)
(* discriminator k:                                                            *)
(*   bool | int(w) | uint(w) | f32 | f64 | string | bytes | time | bqtime      *)
(*   null(of) | ptr(e) | slice(e) | map(key,val) | struct(name,f) | ref(n)     *)
(*   jsonobj | jsonarr                                                         *)
(* Struct fields are [i, n, enc, opt, t]: plenc index, JSON/Go name, whether   *)
(* the field is encoded at all (exported and not "-"), the tag option and the  *)
(* field type.  Tag options are attributes of fields, not of types; Bake       *)
(* pushes them to where they take effect.                                      *)
EXTENDS PlencWire, TLC

CONSTANT Env     \* type environment: name -> raw type (named and recursive Go types)

RECURSIVE Bake(_, _)
Bake(T, opt) ==
  CASE T.k = "int"    -> [k |-> "int", w |-> T.w, flat |-> (opt = "flat")]
    [] T.k = "marked" -> [k |-> "marked", mk |-> (opt = "mk")]
    [] T.k = "time"   -> IF opt = "flattime" THEN [k |-> "bqtime"] ELSE T      \* the BigQuery timestamp codec, registered under the tag flattime     \* a named int32 for which instances may register a marker codec (C17)
    [] T.k = "ptr"    -> [k |-> "ptr", e |-> Bake(T.e, opt)]
    [] T.k = "slice"  -> [k |-> "slice", e |-> Bake(T.e, ""), proto |-> (opt = "proto")]
    [] T.k = "map"    -> [k |-> "map", key |-> Bake(T.key, ""), val |-> Bake(T.val, ""), proto |-> (opt = "proto")]
    [] T.k = "struct" -> [k |-> "struct", name |-> T.name,
                          f |-> [j \in 1..Len(T.f) |->
                                  [i |-> T.f[j].i, n |-> T.f[j].n, enc |-> T.f[j].enc,
                                   intern |-> (T.f[j].opt = "intern"),
                                   t |-> Bake(T.f[j].t, IF T.f[j].opt = "intern" THEN "" ELSE T.f[j].opt)]]]
    [] T.k = "ref"    -> IF opt = "" THEN T
                         ELSE IF opt = "rf" THEN [k |-> "refid", n |-> T.n]      \* (C17) a codec registered for the struct type itself under the tag rf: the first field stands for the value
                         ELSE Bake(Env[T.n], opt)
    [] OTHER          -> T

BEnv == [n \in DOMAIN Env |-> Bake(Env[n], "")]
Resolve(T) == IF T.k = "ref" THEN BEnv[T.n] ELSE T

NullBase(of) == CASE of = "int" -> [k |-> "int", w |-> 64, flat |-> FALSE]
                  [] of = "bool" -> [k |-> "bool"]
                  [] of = "float" -> [k |-> "f64"]
                  [] of = "string" -> [k |-> "string"]
                  [] of = "time" -> [k |-> "time"]

Cfg0 == [protoTime |-> FALSE, protoArrays |-> FALSE, nullProto |-> FALSE, flatUnsigned |-> FALSE, timeAsZigZag |-> FALSE, marker |-> "none"]

\* C17: does the instance's registration for the marked type apply at this (type, option) position?
\* cfg.marker: "none" | "plain" (registered for the type) | "tagged" (registered under the tag mk) | "both"
\*             | "kind" (registered for the basic type int32, not for the named type: the named type falls back to its kind's codec)
Marker(cfg, T) == IF T.mk THEN cfg.marker \in {"tagged", "both"} ELSE cfg.marker \in {"plain", "both", "kind"}
\* wire type of a baked type
RECURSIVE WT(_, _)
WT(cfg, T0) == LET T == Resolve(T0) IN
  CASE T.k \in {"bool", "int", "uint", "bqtime"} -> WTVarInt
    [] T.k = "marked" -> IF Marker(cfg, T) THEN WT32 ELSE WTVarInt
    [] T.k = "refid" -> WT32
    [] T.k = "f64" -> WT64
    [] T.k = "f32" -> WT32
    [] T.k \in {"string", "bytes", "time", "struct"} -> WTLength
    [] T.k = "null" -> WT(cfg, NullBase(T.of))
    [] T.k = "ptr" -> WT(cfg, T.e)
    [] T.k = "slice" -> IF WT(cfg, T.e) = WTLength /\ ~(T.proto \/ cfg.protoArrays) THEN WTSlice ELSE WTLength
    [] T.k = "map" -> IF T.proto THEN WTLength ELSE WTSlice
    [] T.k \in {"jsonobj", "jsonarr"} -> WTSlice

\* the repeated-field (protobuf) form: one frame per element / entry under the field's own index
IsRepeated(cfg, T0) == LET T == Resolve(T0) IN
  \/ (T.k = "slice" /\ WT(cfg, T.e) = WTLength /\ (T.proto \/ cfg.protoArrays))
  \/ (T.k = "map" /\ T.proto)

ZeroSec == [neg |-> TRUE, mag |-> <<0, 110, 71, 60, 103, 1>>]   \* -62135596800, Go's zero time
ZeroInt == [neg |-> FALSE, mag |-> <<>>]

RECURSIVE Zero(_)
Zero(T0) == LET T == Resolve(T0) IN
  CASE T.k = "bool" -> FALSE
    [] T.k \in {"int", "uint", "marked"} -> ZeroInt
    [] T.k = "f32" -> <<0, 0, 0, 0>>
    [] T.k = "f64" -> <<0, 0, 0, 0, 0, 0, 0, 0>>
    [] T.k = "string" -> <<>>
    [] T.k = "bytes" -> [nil |-> TRUE, b |-> <<>>]
    [] T.k \in {"time", "bqtime"} -> [sec |-> ZeroSec, nsec |-> 0]
    [] T.k = "null" -> [valid |-> FALSE, v |-> Zero(NullBase(T.of))]
    [] T.k = "ptr" -> [nil |-> TRUE, v |-> <<>>]
    [] T.k = "slice" -> [nil |-> TRUE, e |-> <<>>]
    [] T.k = "map" -> [nil |-> TRUE, m |-> <<>>]
    [] T.k = "struct" -> [i \in 1..Len(T.f) |-> Zero(T.f[i].t)]
    [] T.k = "refid" -> Zero(BEnv[T.n])
    [] T.k = "unsup" -> <<>>          \* unsupported Go kinds only occur in fields that are never encoded; their values are opaque
    [] T.k = "jsonobj" -> [k |-> "obj", nil |-> TRUE, m |-> <<>>]
    [] T.k = "jsonarr" -> [k |-> "arr", nil |-> TRUE, e |-> <<>>]
=============================================================================
