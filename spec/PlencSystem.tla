------------------------------ MODULE PlencSystem ------------------------------
(* The API-level (linearised) semantics of plenc as a state machine: what a user   *)
(* can observe - byte buffers, typed variables - and the calls that change them.   *)
(* Values are immutable in the model, so "no aliasing" (C11) and "Marshal appends" *)
(* (C06) are frame conditions of the actions:                                      *)
(*   Marshal(b, item)  appends Encode(item) to buffer b and changes nothing else;  *)
(*   Unmarshal(b, x)   sets variable x to Decode(bytes of b, prior x), nothing else;*)
(*   Scribble(b)       overwrites b's bytes; no variable changes.                  *)
(* The catalogue of (type, value) items is a constant; histories are generated     *)
(* from this module (exhaustively for short ones, by simulation for longer ones)   *)
(* and replayed on the real library; TraceSystem re-reads what happened.           *)
EXTENDS PlencDecode

CONSTANTS Cat,        \* sequence of items [T |-> raw type, vals |-> <<v1, v2>>, cfg |-> configuration name]
          Bufs,       \* buffer names
          MaxSteps,
          GenIdx      \* the catalogue items the generator uses (a subset of CatIdx)

VARIABLES bufs,       \* buffer -> bytes
          holds,      \* buffer -> <<item, k>> when it holds exactly one encoding of that item value, else <<0, 0>>
          vars,       \* item index -> value of the decode target of that type
          hist        \* the calls made so far (output only: hidden by VIEW)
sysvars == <<bufs, holds, vars>>
allvars == <<bufs, holds, vars, hist>>

CatIdx == 1..Len(Cat)
TypeOf(i) == Bake(Cat[i].T, "")
\* the configuration of the instance an item is used with: options and registrations (C17); "pkg" = the package-level
\* functions, which must behave like a default-configured instance
CfgN(n) ==
  [Cfg0 EXCEPT !.protoArrays = (n \in {"pa", "both"}), !.protoTime = (n \in {"pt", "both", "mkboth"}),
               !.marker = (CASE n = "mk" -> "plain" [] n = "mktag" -> "tagged" [] n = "mkboth" -> "both" [] n = "mkkind" -> "kind" [] OTHER -> "none")]
SysCfg(i) == CfgN(Cat[i].cfg)
Enc(i, k) == Encode(SysCfg(i), TypeOf(i), Cat[i].vals[k])
Prefixes == {<<>>, <<1>>, <<1, 2, 3>>}
Spares == {0, 1, 64}

SysInit == /\ bufs = [b \in Bufs |-> <<>>]
           /\ holds = [b \in Bufs |-> <<0, 0>>]
           /\ vars = [i \in CatIdx |-> Zero(TypeOf(i))]
           /\ hist = <<>>

\* A call is a record [act, b, pre, spare, i, k, conv]; its effect on the state is a function of the state
\* before (so that the trace specification can evaluate the same definitions on recorded states).
Call(act, b, pre, spare, i, k, conv) == [act |-> act, b |-> b, pre |-> pre, spare |-> spare, i |-> i, k |-> k, conv |-> conv]

\* buffers after the call s
StepBufs(bf, s) ==
  CASE s.act = "newbuf"   -> [bf EXCEPT ![s.b] = s.pre]                               \* a new buffer with a prefix
    [] s.act = "marshal"  -> [bf EXCEPT ![s.b] = @ \o Enc(s.i, s.k)]                   \* data = Marshal(data, v)
    [] s.act = "reuse"    -> [bf EXCEPT ![s.b] = Enc(s.i, s.k)]                        \* data = Marshal(data[:0], v)
    [] s.act = "scribble" -> [bf EXCEPT ![s.b] = [j \in 1..Len(@) |-> 170]]            \* the caller overwrites every byte
    [] OTHER -> bf                                                                    \* unmarshal, fresh
\* variables after the call s
StepVars(bf, vs, s) ==
  CASE s.act = "unmarshal" -> (LET d == Decode(SysCfg(s.i), TypeOf(s.i), bf[s.b], vs[s.i]) IN IF d.ok THEN [vs EXCEPT ![s.i] = d.v] ELSE vs)
    [] s.act = "fresh"     -> [vs EXCEPT ![s.i] = Zero(TypeOf(s.i))]
    [] OTHER -> vs
StepHolds(bf, hd, s) ==
  CASE s.act = "marshal"  -> [hd EXCEPT ![s.b] = IF bf[s.b] = <<>> THEN <<s.i, s.k>> ELSE <<0, 0>>]
    [] s.act = "reuse"    -> [hd EXCEPT ![s.b] = <<s.i, s.k>>]
    [] s.act \in {"newbuf", "scribble"} -> [hd EXCEPT ![s.b] = <<0, 0>>]
    [] OTHER -> hd
\* which calls the generator offers in a state
Enabled(s) ==
  CASE s.act = "newbuf"    -> bufs[s.b] = <<>> /\ hist = <<>>
    [] s.act = "reuse"     -> bufs[s.b] # <<>>
    [] s.act = "unmarshal" -> holds[s.b][1] = s.i /\ Decode(SysCfg(s.i), TypeOf(s.i), bufs[s.b], vars[s.i]).ok
    [] s.act = "scribble"  -> bufs[s.b] # <<>>
    [] s.act = "fresh"     -> vars[s.i] # Zero(TypeOf(s.i))
    [] OTHER -> TRUE
Calls ==
  {Call("newbuf", b, pre, sp, 0, 0, "") : b \in Bufs, pre \in Prefixes, sp \in Spares}
  \cup UNION {{Call("marshal", b, <<>>, 0, i, k, cv) : b \in Bufs, k \in 1..Len(Cat[i].vals), cv \in {"ptr", "val"}} : i \in GenIdx}
  \cup UNION {{Call("reuse", b, <<>>, 0, i, k, "ptr") : b \in Bufs, k \in 1..Len(Cat[i].vals)} : i \in GenIdx}
  \cup {Call("unmarshal", b, <<>>, 0, i, 0, "") : b \in Bufs, i \in GenIdx}
  \cup {Call("scribble", b, <<>>, 0, 0, 0, "") : b \in Bufs}
  \cup {Call("fresh", "", <<>>, 0, i, 0, "") : i \in GenIdx}

Do(s) == /\ Enabled(s)
         /\ bufs' = StepBufs(bufs, s) /\ vars' = StepVars(bufs, vars, s) /\ holds' = StepHolds(bufs, holds, s)
         /\ hist' = Append(hist, s)
SysNext == Len(hist) < MaxSteps /\ \E s \in Calls : Do(s)
SysSpec == SysInit /\ [][SysNext]_allvars

\* ---- properties of the design ----
\* C06: a Marshal step appends exactly Encode(value) and keeps the prefix; the encoding does not depend on convention or history
AppendOnly == [][\A b \in Bufs : (hist' # hist /\ hist'[Len(hist')].act = "marshal" /\ hist'[Len(hist')].b = b)
                    => (SubSeq(bufs'[b], 1, Len(bufs[b])) = bufs[b]
                        /\ SubSeq(bufs'[b], Len(bufs[b]) + 1, Len(bufs'[b])) = Enc(hist'[Len(hist')].i, hist'[Len(hist')].k))]_allvars
\* C11: only the action's own target changes
FrameVars == [][(hist' # hist /\ hist'[Len(hist')].act \in {"newbuf", "marshal", "reuse", "scribble"}) => vars' = vars]_allvars
FrameBufs == [][(hist' # hist /\ hist'[Len(hist')].act \in {"unmarshal", "fresh"}) => bufs' = bufs]_allvars
FrameOther == [][\A b \in Bufs : (hist' # hist /\ hist'[Len(hist')].b # b) => bufs'[b] = bufs[b]]_allvars
\* C10: a decode into a fresh variable depends on the bytes only
FreshIndependent == \A i \in CatIdx, b \in Bufs :
   (holds[b][1] = i /\ vars[i] = Zero(TypeOf(i))) =>
      LET d == Decode(SysCfg(i), TypeOf(i), bufs[b], Zero(TypeOf(i))) IN
      d.ok /\ Eq(TypeOf(i), d.v, Norm(SysCfg(i), TypeOf(i), Cat[i].vals[holds[b][2]], TRUE))
=============================================================================
