-------------------------------- MODULE MCPrim --------------------------------
(* C18 on the model: varint / zig-zag / tag / skip primitives agree, over all    *)
(* boundary values 2^j, 2^j +- 1 (j = 0..64), every 7k-bit boundary and all      *)
(* canonical limb sequences up to MaxLimbs over a small limb alphabet.  Every    *)
(* value is emitted as a "prim" case for the real plenccore functions.           *)
EXTENDS PlencWire, Json, TLC, FiniteSets

CONSTANTS MaxLimbs, Emit
LimbAlpha == {0, 1, 2, 63, 64, 65, 126, 127}

VARIABLES st, u, fn, wt, data
vars == <<st, u, fn, wt, data>>

P2(j) == LET f[i \in 0..64] == IF i = 0 THEN <<1>> ELSE Double(f[i - 1], 0) IN f[j]
Max64 == Dec(P2(64))
Boundary == UNION { {P2(k), Dec(P2(k)), Inc(P2(k))} : k \in 0..63 } \cup {<<>>, Max64, Dec(Max64), P2(63)}
Fits64(l) == IsCanon(l)

\* staged: grow a limb sequence limb by limb, or pick a boundary value; then pick the primitive
Rep(n, x) == [i \in 1..n |-> x]
ItemLens == {0, 1, 128}
Item(n) == UV(n) \o Rep(n, 9)
SkipBodies(w) ==
  CASE w = WTVarInt -> {AppendVarUint(b) : b \in {<<>>, <<1>>, <<127>>, <<0, 1>>, Max64}}
    [] w = WT64 -> {<<1, 2, 3, 4, 5, 6, 7, 8>>}
    [] w = WT32 -> {<<1, 2, 3, 4>>}
    [] w = WTLength -> {Item(n) : n \in {0, 1, 127, 128}}
    [] w = WTSlice -> {UV(0)} \cup {UV(1) \o Item(n) : n \in ItemLens} \cup {UV(2) \o Item(n) \o Item(m) : n \in ItemLens, m \in ItemLens}
                      \cup {UV(n) \o Rep(n, 0) : n \in {127, 128, 129}}                 \* two-byte counts over one-byte entries
Huge == {<<128, 128, 128, 128, 8>>, <<128, 128, 128, 128, 128, 32>>, <<128, 128, 128, 128, 128, 128, 128, 128, 128, 1>>,
         <<255, 255, 255, 255, 255, 255, 255, 255, 255, 1>>, <<255, 255, 255, 255, 255, 255, 255, 255, 255, 2>>,
         <<128, 128, 128, 128, 128, 128, 128, 128, 128, 128, 1>>, <<255>>, <<128, 0>>,
         \* around 2^63 and just below 2^64, where signed arithmetic on a length wraps
         <<255, 255, 255, 255, 255, 255, 255, 255, 127>>, <<247, 255, 255, 255, 255, 255, 255, 255, 127>>,
         <<245, 255, 255, 255, 255, 255, 255, 255, 255, 1>>, <<246, 255, 255, 255, 255, 255, 255, 255, 255, 1>>,
         <<254, 255, 255, 255, 255, 255, 255, 255, 255, 1>>, <<255, 255, 255, 255, 7>>, <<255, 255, 255, 255, 15>>}
Cuts(b) == IF Len(b) <= 12 THEN 0..(Len(b) - 1) ELSE {0, 1, 2, 3, Len(b) - 2, Len(b) - 1}
Mutations(w, b) ==
  {b, b \o <<255>>, b \o <<0, 0, 0>>} \cup {Take(b, k) : k \in Cuts(b)}
  \cup (IF w \in {WTLength, WTSlice} THEN {h \o Drop(b, ReadVarUint(b).n) : h \in Huge} ELSE {})
  \cup (IF w = WTSlice /\ Len(b) > 1 THEN {Take(b, 1) \o h \o Drop(b, 1 + ReadVarUint(Drop(b, 1)).n) : h \in Huge} ELSE {})
  \cup (IF w = WTVarInt THEN Huge ELSE {})

NextV ==
  \/ st = "grow" /\ Len(u) < MaxLimbs /\ \E x \in LimbAlpha : u' = Append(u, x) /\ st' = "grow" /\ fn' = fn
  \/ st = "grow" /\ u = <<>> /\ \E b \in Boundary : u' = b /\ st' = "pick" /\ fn' = fn
  \/ st = "grow" /\ IsCanon(u) /\ u' = u /\ st' = "pick" /\ fn' = fn
  \/ st = "pick" /\ \E f \in {"varuint", "varint+", "varint-", "tag"} : fn' = f /\ st' = "done" /\ u' = u
Init == st = "grow" /\ u = <<>> /\ fn = "" /\ wt = 0 /\ data = <<>>
Next ==
  \/ /\ st = "grow" /\ u = <<>> /\ \E w \in {0, 1, 2, 3, 4, 5, 6, 7} : wt' = w /\ st' = "skipbody" /\ UNCHANGED <<u, fn, data>>
  \/ /\ st = "skipbody" /\ wt \in WireTypes /\ \E b \in SkipBodies(wt) : data' = b /\ st' = "skipmut" /\ UNCHANGED <<u, fn, wt>>
  \/ /\ st = "skipbody" /\ wt \notin WireTypes /\ data' = <<1, 2, 3>> /\ st' = "done" /\ fn' = "skip" /\ UNCHANGED <<u, wt>>
  \/ /\ st = "skipmut" /\ \E m \in Mutations(wt, data) : data' = m /\ st' = "done" /\ fn' = "skip" /\ UNCHANGED <<u, wt>>
  \/ UNCHANGED <<wt, data>> /\ NextV
Spec == Init /\ [][Next]_vars

Done == st = "done"
\* Skip over a well-formed field returns exactly its length, whatever follows; the model's SkipLen never
\* reports a length beyond the data
SkipExact == st = "skipmut" => \A junk \in {<<>>, <<255>>, <<0, 0, 0>>} : SkipLen(data \o junk, wt) = Len(data)
SkipInRange == Done /\ fn = "skip" => LET n == SkipLen(data, wt) IN n = -1 \/ (n >= 0 /\ n <= Len(data))

Sg(neg) == [neg |-> neg /\ u # <<>>, mag |-> u]
\* a signed 64-bit value: magnitude <= 2^63 - 1, or exactly 2^63 when negative
SignedOK(neg) == Len(u) < 10 \/ (neg /\ u = P2(63))
TagOK == Len(u) <= 4                                  \* field indexes up to 2^28

VarUintAgree == Done /\ fn = "varuint" =>
  LET a == AppendVarUint(u)  r == ReadVarUint(a) IN
  /\ SizeVarUint(u) = Len(a) /\ r.n = Len(a) /\ r.v = u
  /\ a[Len(a)] < 128 /\ \A i \in 1..(Len(a) - 1) : a[i] >= 128          \* standard protobuf varint
  /\ ReadVarUint(a \o <<255>>).n = Len(a)                               \* reads exactly its own bytes
VarIntAgree == Done /\ fn \in {"varint+", "varint-"} /\ SignedOK(fn = "varint-") =>
  LET i == Sg(fn = "varint-")  z == ZigZag(i) IN
  /\ IsCanon(z) /\ ZagZig(z).neg = i.neg /\ ZagZig(z).mag = i.mag           \* bijection, one direction
  /\ ReadVarUint(AppendVarInt(i)).v = z
  \* magnitudes below 2^(7k-1) map to k-byte codes: the code of a value with m significant bits has ceil((m+1)/7) bytes
  /\ (i.mag # <<>> => Len(AppendVarInt(i)) = Len(IF i.neg THEN Double(Dec(i.mag), 1) ELSE Double(i.mag, 0)))
ZagZigAgree == Done /\ fn = "varuint" => LET i == ZagZig(u) IN ZigZag(i) = u   \* ... and the other
TagAgree == Done /\ fn = "tag" /\ TagOK =>
  \A w \in {0, 1, 2, 3, 4, 5} :
    LET t == TagL(w, u)  r == ReadTag(t) IN
    r.ok /\ r.wt = w /\ r.n = Len(t) /\ NatLimbs(r.idx) = u

CaseJson == ToJson([ev |-> "prim", fn |-> fn, u |-> u, wt |-> wt, data |-> data])
EmitCase == (Done /\ Emit) => PrintT(<<"CASE", CaseJson>>)
=============================================================================
