------------------------------ MODULE PlencWire ------------------------------
(* Wire types, tags, skipping and schema-less walking, written from README    *)
(* ("Is this protobuf?") and the comments of plenccore/wire.go - not from the *)
(* codecs.                                                                    *)
EXTENDS PlencNum

WTVarInt == 0
WT64     == 1
WTLength == 2
WTSlice  == 3
WT32     == 5
WireTypes == {WTVarInt, WT64, WTLength, WTSlice, WT32}

UV(n) == AppendVarUint(NatLimbs(n))          \* varint of a small natural
Tag(wt, idx) == UV(idx * 8 + wt)             \* idx < 2^27 in the model
\* tag for an index given as limbs (C18 goes to 2^28 and beyond TLC's idx*8 range)
TagL(wt, idxLimbs) == LET x == Double(Double(Double(idxLimbs, 0), 0), 0) IN
                      AppendVarUint(IF x = <<>> THEN NatLimbs(wt) ELSE [x EXCEPT ![1] = @ + wt])

\* total versions of SubSeq
Drop(b, n) == IF n >= Len(b) THEN <<>> ELSE IF n <= 0 THEN b ELSE SubSeq(b, n + 1, Len(b))
Take(b, n) == IF n >= Len(b) THEN b ELSE IF n <= 0 THEN <<>> ELSE SubSeq(b, 1, n)
Slice(b, from, len) == Take(Drop(b, from), len)      \* len bytes starting at 0-based offset from

\* [ok, wt, idx, n]
ReadTag(b) == LET r == ReadVarUint(b) IN
              IF r.n <= 0 \/ ~FitsInt(r.v) THEN [ok |-> FALSE, wt |-> 0, idx |-> 0, n |-> 0]
              ELSE LET x == LimbsNat(r.v) IN [ok |-> TRUE, wt |-> x % 8, idx |-> x \div 8, n |-> r.n]

\* A length / count read from the wire, usable as a TLC integer: [ok, v, n]; too large for any data => not ok
ReadLen(b) == LET r == ReadVarUint(b) IN
              IF r.n <= 0 \/ ~FitsInt(r.v) THEN [ok |-> FALSE, v |-> 0, n |-> 0]
              ELSE [ok |-> TRUE, v |-> LimbsNat(r.v), n |-> r.n]

\* Exact length of one well-formed field body of wire type wt at the start of b, or -1.
RECURSIVE SkipItems(_, _, _)
SkipItems(b, count, off) ==         \* count length-prefixed items starting at offset off (0-based)
  IF count = 0 THEN off
  ELSE LET r == ReadLen(Drop(b, off)) IN
       IF ~r.ok \/ r.v > Len(b) - off - r.n THEN -1          \* (not off + n + v > Len: v can be 2^31 - 1)
       ELSE SkipItems(b, count - 1, off + r.n + r.v)
SkipLen(b, wt) ==
  CASE wt = WTVarInt -> (LET r == ReadVarUint(b) IN IF r.n > 0 THEN r.n ELSE -1)
    [] wt = WT64     -> IF Len(b) >= 8 THEN 8 ELSE -1
    [] wt = WT32     -> IF Len(b) >= 4 THEN 4 ELSE -1
    [] wt = WTLength -> (LET r == ReadLen(b) IN IF r.ok /\ r.v <= Len(b) - r.n THEN r.n + r.v ELSE -1)
    [] wt = WTSlice  -> (LET r == ReadLen(b) IN IF r.ok /\ r.v <= Len(b) THEN SkipItems(b, r.v, r.n) ELSE -1)
    [] OTHER         -> -1

\* What Skip may return on arbitrary input (C18): the exact length when the field is well formed;
\* otherwise an error, or - where the documentation leaves it open (a terminated but over-long
\* varint) - any in-range length.  "err" is always allowed on malformed input.
SkipAllowed(b, wt, res) ==       \* res = [err |-> BOOLEAN, n |-> Int]
  LET exact == SkipLen(b, wt) IN
  IF exact >= 0 THEN ~res.err /\ res.n = exact
  ELSE res.err \/ (wt = WTVarInt /\ res.n >= 1 /\ res.n <= Len(b) /\ b[res.n] < 128
                   /\ \A i \in 1..(res.n - 1) : b[i] >= 128)

\* Schema-less walk of a struct body into frames; ok = FALSE on malformed input.
\* pay = the payload (for WTLength without its length prefix), raw = the whole field body as skipped
RECURSIVE Frames(_)
Frames(b) ==
  IF b = <<>> THEN [ok |-> TRUE, x |-> <<>>]
  ELSE LET t == ReadTag(b) IN
       IF ~t.ok THEN [ok |-> FALSE, x |-> <<>>]
       ELSE LET rest == Drop(b, t.n)  n == SkipLen(rest, t.wt) IN
            IF n < 0 THEN [ok |-> FALSE, x |-> <<>>]
            ELSE LET tail == Frames(Drop(rest, n))
                     pay == IF t.wt = WTLength THEN Drop(Take(rest, n), ReadLen(rest).n) ELSE Take(rest, n) IN
                 IF ~tail.ok THEN tail
                 ELSE [ok |-> TRUE, x |-> <<[idx |-> t.idx, wt |-> t.wt, pay |-> pay, size |-> t.n + n]>> \o tail.x]

\* counted items: count length-prefixed chunks filling b exactly from offset 0 => [ok, x]
RECURSIVE CountedItems(_, _)
CountedItems(b, count) ==
  IF count = 0 THEN [ok |-> TRUE, x |-> <<>>, rest |-> b]
  ELSE LET r == ReadLen(b) IN
       IF ~r.ok \/ r.v > Len(b) - r.n THEN [ok |-> FALSE, x |-> <<>>, rest |-> <<>>]
       ELSE LET t == CountedItems(Drop(b, r.n + r.v), count - 1) IN
            IF ~t.ok THEN t ELSE [ok |-> TRUE, x |-> <<Slice(b, r.n, r.v)>> \o t.x, rest |-> t.rest]

\* An independent protobuf wire reader: only wire types 0, 1, 2, 5, every length exact
RECURSIVE ProtoFrames(_)
ProtoFrames(b) ==
  LET f == Frames(b) IN
  IF ~f.ok THEN f
  ELSE IF \E i \in 1..Len(f.x) : f.x[i].wt \notin {WTVarInt, WT64, WTLength, WT32} \/ f.x[i].idx < 1
       THEN [ok |-> FALSE, x |-> <<>>] ELSE f
=============================================================================
