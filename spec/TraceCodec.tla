------------------------------ MODULE TraceCodec ------------------------------
(* Judges recorded real executions of Marshal / Unmarshal / codec methods       *)
(* ("codec" events, DESIGN.md Appendix B) against the model, one event per      *)
(* step.  Every event is judged for every property it bears on; non-ok verdicts *)
(* are printed and the run continues with the next event.                       *)
EXTENDS KnownDeviations, Json

CONSTANTS TraceFile, EnvFile
EnvDef == JsonDeserialize(EnvFile)
Trace == ndJsonDeserialize(TraceFile)

VARIABLES l, bad
vars == <<l, bad>>

Crashed(e) == e.out.kind \in {"fatal", "timeout", "oom"}
McCfg(e) == [protoTime |-> e.cfg.protoTime, protoArrays |-> e.cfg.protoArrays]

\* ---- C01: value round trip ----
JudgeC01(e, cfg, T) ==
  IF Crashed(e) THEN "crash-" \o e.out.kind
  ELSE IF e.out.panic THEN "panic"
  ELSE IF e.out.merr # "" THEN "marshal-error"
  ELSE IF e.out.uerr # "" THEN "unmarshal-error"
  ELSE IF ~Eq(T, e.out.back, Norm(cfg, T, e.v, TRUE)) THEN "value@" \o Diff(T, e.out.back, Norm(cfg, T, e.v, TRUE))
  ELSE IF ~e.out.backUTC THEN "time-not-utc"
  ELSE "ok"

\* ---- C02: bytes ----
JudgeC02(e, cfg, T) ==
  IF Crashed(e) \/ e.out.panic \/ e.out.merr # "" THEN "no-bytes"
  ELSE IF EncMatches(cfg, T, e.v, e.out.bytes) THEN "ok" ELSE "bytes"

\* ---- C05: codec laws, relating the code's own results to each other ----
StripPtr(T0) == LET T == Resolve(T0) IN IF T.k = "ptr" THEN Resolve(T.e) ELSE T
LawOK(cfg, S, lw) ==
  IF ~lw.ok THEN "law-panic"
  ELSE IF lw.omit THEN "ok"
  ELSE IF lw.sizeU # Len(lw.appU) THEN "size-untagged"
  ELSE IF lw.sizeT1 # Len(lw.appT1) \/ lw.sizeT2 # Len(lw.appT2) THEN "size-tagged"
  ELSE IF ~lw.prefixKept THEN "append-prefix"
  ELSE IF IsRepeated(cfg, StripPtr(S))
       THEN LET f1 == Frames(lw.appT1)  f2 == Frames(lw.appT2) IN
            IF ~f1.ok \/ ~f2.ok THEN "repeated-not-walkable"
            ELSE IF \E i \in 1..Len(f1.x) : f1.x[i].idx # 1 \/ f1.x[i].wt # WTLength THEN "repeated-frame"
            ELSE IF \E i \in 1..Len(f2.x) : f2.x[i].idx # 300 \/ f2.x[i].wt # WTLength THEN "repeated-frame"
            ELSE IF Len(f1.x) # Len(f2.x) THEN "repeated-count" ELSE "ok"
  ELSE LET hd(tag) == tag \o (IF lw.wt = WTLength THEN UV(Len(lw.appU)) ELSE <<>>)
           \* map iteration order differs between two Append calls: with maps inside, compare header and length only
           same(a, tag) == IF HasMap(S, 6) THEN Take(a, Len(hd(tag))) = hd(tag) /\ Len(a) = Len(hd(tag)) + Len(lw.appU)
                           ELSE a = hd(tag) \o lw.appU IN
       IF ~same(lw.appT1, lw.tag1) \/ ~same(lw.appT2, lw.tag2) THEN "framing"
       ELSE IF lw.readErr # "" THEN "read-error"
       ELSE IF lw.readN # Len(lw.appU) THEN "read-consumed"
       ELSE "ok"
RECURSIVE LawsFrom(_, _, _, _)
LawsFrom(cfg, T, laws, i) ==
  IF i > Len(laws) THEN "ok"
  ELSE LET lw == laws[i]
           S == IF lw.path = "" THEN T ELSE IF lw.path = "?" THEN T ELSE T.f[lw.fi].t
           r == LawOK(cfg, S, lw) IN
       IF r # "ok" THEN r \o "@" \o lw.path ELSE LawsFrom(cfg, T, laws, i + 1)
JudgeC05(e, cfg, T) ==
  IF Crashed(e) \/ e.out.panic \/ e.out.merr # "" THEN "ok"          \* nothing recorded; C01 reports the failure
  ELSE LET r == LawsFrom(cfg, T, e.out.laws, 1) IN
       IF r # "ok" THEN r
       ELSE IF Resolve(T).k = "struct" /\ ~Frames(e.out.bytes).ok THEN "not-walkable"
       ELSE "ok"

\* ---- C11 (as far as a single call shows it): Marshal / Unmarshal left the source value alone ----
JudgeC11(e, cfg, T) ==
  IF Crashed(e) \/ e.out.panic \/ e.out.merr # "" THEN "ok"
  ELSE IF Eq(T, e.out.srcAfter, e.v) THEN "ok" ELSE "source-modified"

Judge(e) ==
  LET cfg == McCfg(e)  T == Bake(e.T, "") IN
  << <<"C01", JudgeC01(e, cfg, T)>>, <<"C02", JudgeC02(e, cfg, T)>>,
     <<"C05", JudgeC05(e, cfg, T)>>, <<"C11", JudgeC11(e, cfg, T)>> >>

NonOk(vs) == {i \in 1..Len(vs) : vs[i][2] # "ok"}

Init == l = 1 /\ bad = 0
Next == /\ l <= Len(Trace)
        /\ LET e == Trace[l]  vs == Judge(e) IN
           /\ \A i \in NonOk(vs) : PrintT(<<"VERDICT", e.id, vs[i][1], vs[i][2]>>)
           /\ bad' = bad + (IF NonOk(vs) = {} THEN 0 ELSE 1)
        /\ l' = l + 1
Spec == Init /\ [][Next]_vars
Accepted == l = Len(Trace) + 1
Finished == (l = Len(Trace) + 1) => PrintT(<<"JUDGED", Len(Trace), bad>>)
=============================================================================
