------------------------------ MODULE TraceCodec ------------------------------
(* Judges recorded real executions of Marshal / Unmarshal / codec methods       *)
(* ("codec" events, DESIGN.md Appendix B) against the model, one event per      *)
(* step.  Every event is judged for every property it bears on; non-ok verdicts *)
(* are printed and the run continues with the next event.                       *)
EXTENDS KnownDeviations, PlencDescriptor, PlencJSONModel, Json

CONSTANTS TraceFile, EnvFile
EnvDef == JsonDeserialize(EnvFile)
Trace == ndJsonDeserialize(TraceFile)

VARIABLES l, bad
vars == <<l, bad>>

Crashed(e) == e.out.kind \in {"fatal", "timeout", "oom"}
McCfg(e) == [protoTime |-> e.cfg.protoTime, protoArrays |-> e.cfg.protoArrays, nullProto |-> FALSE, flatUnsigned |-> FALSE, timeAsZigZag |-> FALSE, marker |-> "none"]

\* ---- C01: value round trip ----
JudgeC01(e, cfg, T) ==
  IF Crashed(e) THEN "crash-" \o e.out.kind
  ELSE IF e.out.panic THEN "panic"
  ELSE IF e.out.merr # "" THEN "marshal-error"
  ELSE IF e.out.uerr # "" THEN "unmarshal-error"
  ELSE IF ~e.out.sane THEN "decoded-slice-has-len-above-cap"
  ELSE IF ~Eq(T, e.out.back, Norm(cfg, T, e.v, TRUE)) THEN "value@" \o Diff(T, e.out.back, Norm(cfg, T, e.v, TRUE))
  ELSE IF ~e.out.backUTC THEN "time-not-utc"
  ELSE IF "byval" \in DOMAIN e.out /\ e.out.byval.have THEN
       \* the same value handed to Marshal by value instead of through a pointer
       LET bv == e.out.byval IN
       IF bv.panic THEN "byvalue:panic:" \o bv.where
       ELSE IF bv.merr # "" THEN "byvalue:marshal-error"
       ELSE IF bv.uerr # "" THEN "byvalue:unmarshal-error"
       ELSE IF ~Eq(T, bv.back, Norm(cfg, T, e.v, TRUE)) THEN "byvalue:value@" \o Diff(T, bv.back, Norm(cfg, T, e.v, TRUE))
       ELSE "ok"
  ELSE "ok"

\* ---- C02: bytes ----
JudgeC02(e, cfg, T) ==
  IF Crashed(e) \/ e.out.panic \/ e.out.merr # "" THEN "no-bytes"
  ELSE IF EncMatches(cfg, T, e.v, e.out.bytes) THEN "ok" ELSE "bytes"

\* ---- C05: codec laws, relating the code's own results to each other ----
StripPtr(T0) == LET T == Resolve(T0) IN IF T.k = "ptr" THEN Resolve(T.e) ELSE T
LawOK(cfg, S, lw) ==
  IF ~lw.ok THEN "law-panic"
  ELSE IF lw.omit THEN "ok"
  ELSE IF lw.sizeU # Len(lw.appU) THEN "size-untagged"
  ELSE IF lw.sizeT1 # Len(lw.appT1) \/ lw.sizeT2 # Len(lw.appT2) THEN "size-tagged"
  ELSE IF ~lw.prefixKept THEN "append-prefix"
  ELSE IF IsRepeated(cfg, StripPtr(S))
       THEN LET f1 == Frames(lw.appT1)  f2 == Frames(lw.appT2) IN
            IF ~f1.ok \/ ~f2.ok THEN "repeated-not-walkable"
            ELSE IF \E i \in 1..Len(f1.x) : f1.x[i].idx # 1 \/ f1.x[i].wt # WTLength THEN "repeated-frame"
            ELSE IF \E i \in 1..Len(f2.x) : f2.x[i].idx # 300 \/ f2.x[i].wt # WTLength THEN "repeated-frame"
            ELSE IF Len(f1.x) # Len(f2.x) THEN "repeated-count" ELSE "ok"
  ELSE LET hd(tag) == tag \o (IF lw.wt = WTLength THEN UV(Len(lw.appU)) ELSE <<>>)
           \* map iteration order differs between two Append calls: with maps inside, compare header and length only
           same(a, tag) == IF HasMap(S, 6) THEN Take(a, Len(hd(tag))) = hd(tag) /\ Len(a) = Len(hd(tag)) + Len(lw.appU)
                           ELSE a = hd(tag) \o lw.appU IN
       IF ~same(lw.appT1, lw.tag1) \/ ~same(lw.appT2, lw.tag2) THEN "framing"
       ELSE IF lw.readErr # "" THEN "read-error"
       ELSE IF lw.readN # Len(lw.appU) THEN "read-consumed"
       ELSE "ok"
RECURSIVE LawsFrom(_, _, _, _)
LawsFrom(cfg, T, laws, i) ==
  IF i > Len(laws) THEN "ok"
  ELSE LET lw == laws[i]
           S == IF lw.path = "" THEN T ELSE IF lw.path = "?" THEN T ELSE T.f[lw.fi].t
           r == LawOK(cfg, S, lw) IN
       IF r # "ok" THEN r \o "@" \o lw.path ELSE LawsFrom(cfg, T, laws, i + 1)
JudgeC05(e, cfg, T) ==
  IF Crashed(e) \/ e.out.panic \/ e.out.merr # "" THEN "ok"          \* nothing recorded; C01 reports the failure
  ELSE LET r == LawsFrom(cfg, T, e.out.laws, 1) IN
       IF r # "ok" THEN r
       ELSE IF Resolve(T).k = "struct" /\ ~Frames(e.out.bytes).ok THEN "not-walkable"
       ELSE "ok"

\* ---- C11 (as far as a single call shows it): Marshal / Unmarshal left the source value alone ----
JudgeC11(e, cfg, T) ==
  IF Crashed(e) \/ e.out.panic \/ e.out.merr # "" THEN "ok"
  ELSE IF ~Eq(T, e.out.srcAfter, e.v) THEN "source-modified"
  ELSE IF "aliasIn" \in DOMAIN e.out /\ e.out.aliasIn THEN "decoded-value-shares-memory-with-input"
  ELSE IF "aliasOut" \in DOMAIN e.out /\ e.out.aliasOut THEN "returned-bytes-share-memory-with-the-value"
  ELSE "ok"

\* ---- C09: explicit presence ----
\* zero-valued plain fields leave no frame, at any struct nesting reachable through struct / pointer fields
RECURSIVE NoZeroFrames(_, _, _, _)
PlainKind(T0) == Resolve(T0).k \in {"bool", "int", "uint", "f32", "f64", "string", "bytes", "time", "slice"}
NoZeroFrames(cfg, T0, v, b) == LET T == Resolve(T0) IN
  IF T.k # "struct" THEN TRUE
  ELSE LET fr == Frames(b) IN
       fr.ok => \A i \in 1..Len(T.f) :
          LET F == T.f[i]  hits == {j \in 1..Len(fr.x) : fr.x[j].idx = F.i} IN
          ~F.enc \/
          IF PlainKind(F.t) /\ Omit(cfg, F.t, v[i]) THEN hits = {}
          ELSE IF Resolve(F.t).k = "struct" /\ hits # {}
               THEN NoZeroFrames(cfg, F.t, v[i], fr.x[CHOOSE j \in hits : TRUE].pay)
               ELSE TRUE
PresencePath(p) == \E i \in 1..Len(p) : SubSeq(p, i, i) \in {"*", "?"}
JudgeC09(e, cfg, T) ==
  IF Crashed(e) \/ e.out.panic \/ e.out.merr # "" \/ e.out.uerr # "" THEN "ok"        \* C01 reports these
  ELSE LET d == Diff(T, e.out.back, Norm(cfg, T, e.v, TRUE)) IN
       IF d # "" /\ PresencePath(d) THEN "presence@" \o d
       ELSE IF ~NoZeroFrames(cfg, T, e.v, e.out.bytes) THEN "zero-plain-field-encoded"
       ELSE IF e.out.desc.have /\ DescDiff(DescOf(T, FALSE, 12), e.out.desc.d, TRUE, 12) = "explicit-presence" THEN "descriptor-flag"
       \* presence also survives the other calling convention (the value handed to Marshal by value)
       ELSE IF "byval" \in DOMAIN e.out /\ e.out.byval.have /\ ~e.out.byval.panic /\ e.out.byval.merr = "" /\ e.out.byval.uerr = ""
               /\ PresencePath(Diff(T, e.out.byval.back, Norm(cfg, T, e.v, TRUE))) THEN "byvalue:presence@" \o Diff(T, e.out.byval.back, Norm(cfg, T, e.v, TRUE))
       ELSE "ok"

\* ---- C14: the descriptor mirrors the type ----
JudgeC14(e, cfg, T) ==
  IF ~e.out.desc.have THEN "ok"
  ELSE LET d == DescDiff(DescOf(T, FALSE, 12), e.out.desc.d, TRUE, 12) IN IF d = "" THEN "ok" ELSE "descriptor:" \o d

\* ---- C12: proto-compatible mode ----
\* the statement's precondition: map fields are tagged proto; null.Time keeps the default time codec (finding F19)
RECURSIVE ProtoClean(_, _)
ProtoClean(T0, fuel) == LET T == Resolve(T0) IN
  fuel = 0 \/
  CASE T.k = "map" -> T.proto /\ ProtoClean(T.key, fuel - 1) /\ ProtoClean(T.val, fuel - 1)
    [] T.k \in {"ptr", "slice"} -> ProtoClean(T.e, fuel - 1)
    [] T.k = "struct" -> \A i \in 1..Len(T.f) : ~T.f[i].enc \/ (T.f[i].i >= 1 /\ ProtoClean(T.f[i].t, fuel - 1))     \* 0 is not a protobuf field number
    [] T.k = "null" -> T.of # "time"
    [] T.k \in {"jsonobj", "jsonarr", "bqtime"} -> FALSE
    [] OTHER -> TRUE
\* an independent protobuf reader walking the bytes along the message structure: only wire types 0,1,2,5,
\* every nested message / Timestamp / map entry walks to its exact end with the right wire types
RECURSIVE ProtoWalk(_, _, _, _), ProtoField(_, _, _, _)
ProtoWalk(cfg, T0, b, fuel) == LET T == Resolve(T0) IN
  IF fuel = 0 THEN "ok" ELSE
  LET fr == ProtoFrames(b) IN
  IF ~fr.ok THEN "not-protobuf"
  ELSE LET res == [j \in 1..Len(fr.x) |->
                    LET i == FirstIdx(T.f, fr.x[j].idx) IN
                    IF i = 0 THEN "unknown-field" ELSE ProtoField(cfg, T.f[i].t, fr.x[j], fuel - 1)]
           wrong == {j \in 1..Len(res) : res[j] # "ok"} IN
       IF wrong = {} THEN "ok" ELSE res[CHOOSE j \in wrong : TRUE]
ProtoField(cfg, F0, frame, fuel) == LET F == StripPtr(F0) IN
  CASE F.k \in {"bool", "int", "uint"} -> IF frame.wt = WTVarInt THEN "ok" ELSE "scalar-wiretype"
    [] F.k = "f64" -> IF frame.wt = WT64 THEN "ok" ELSE "scalar-wiretype"
    [] F.k = "f32" -> IF frame.wt = WT32 THEN "ok" ELSE "scalar-wiretype"
    [] F.k \in {"string", "bytes"} -> IF frame.wt = WTLength THEN "ok" ELSE "string-wiretype"
    [] F.k = "null" -> ProtoField(cfg, NullBase(F.of), frame, fuel)
    [] F.k = "time" -> IF frame.wt # WTLength THEN "time-wiretype"
                       ELSE LET tf == ProtoFrames(frame.pay) IN
                            IF ~tf.ok THEN "time-not-protobuf"
                            ELSE IF \E j \in 1..Len(tf.x) : tf.x[j].idx \notin {1, 2} \/ tf.x[j].wt # WTVarInt THEN "timestamp-shape"
                            ELSE IF cfg.protoTime /\ (\E j \in 1..Len(tf.x) : tf.x[j].idx = 2 /\ Len(tf.x[j].pay) > 5) THEN "nanos-not-plain-varint"
                            ELSE "ok"
    [] F.k = "struct" -> IF frame.wt # WTLength THEN "message-wiretype" ELSE ProtoWalk(cfg, F, frame.pay, fuel)
    [] F.k = "slice" ->
         LET E == StripPtr(F.e) IN
         IF WT(cfg, F.e) = WTLength
         THEN \* repeated: this frame is one element
              IF frame.wt # WTLength THEN "repeated-wiretype" ELSE ProtoField(cfg, F.e, frame, fuel)
         ELSE IF frame.wt = WTLength THEN "ok" ELSE "packed-wiretype"
    [] F.k = "map" ->
         IF frame.wt # WTLength THEN "map-entry-wiretype"
         ELSE LET ef == ProtoFrames(frame.pay) IN
              IF ~ef.ok THEN "map-entry-not-protobuf"
              ELSE IF \E j \in 1..Len(ef.x) : ef.x[j].idx \notin {1, 2} THEN "map-entry-shape"
              ELSE LET res == [j \in 1..Len(ef.x) |-> ProtoField(cfg, IF ef.x[j].idx = 1 THEN F.key ELSE F.val, ef.x[j], fuel - 1)]
                       wrong == {j \in 1..Len(res) : res[j] # "ok"} IN
                   IF wrong = {} THEN "ok" ELSE res[CHOOSE j \in wrong : TRUE]
    [] OTHER -> "ok"
HasProtoTag(t) == t.k \in {"slice", "map"} /\ t.proto
JudgeC12(e, cfg, T) ==
  IF Crashed(e) \/ e.out.panic \/ e.out.merr # "" THEN "ok"
  \* the proto tag is a switch of its own: a field carrying it is written in the repeated form whatever the instance did before
  ELSE IF ~cfg.protoArrays /\ AnySub(T, HasProtoTag, 8) /\ ~EncMatches(cfg, T, e.v, e.out.bytes) THEN "proto-tagged-field-bytes"
  ELSE IF ~(cfg.protoArrays /\ Resolve(T).k = "struct") THEN "ok"
  ELSE LET crossOK == IF ~e.out.cross.have THEN "ok"
                      ELSE IF e.out.cross.panic THEN "default-mode-decode-panic"
                      ELSE IF e.out.cross.uerr # "" THEN "default-mode-decode-error"
                      ELSE IF ~Eq(T, e.out.cross.back, Norm(cfg, T, e.v, TRUE)) THEN "default-mode-decode-value@" \o Diff(T, e.out.cross.back, Norm(cfg, T, e.v, TRUE))
                      ELSE "ok" IN
       IF crossOK # "ok" THEN crossOK
       ELSE IF cfg.protoTime /\ ProtoClean(T, 8) THEN ProtoWalk(cfg, T, e.out.bytes, 8)
       ELSE IF cfg.protoTime /\ AnySub(T, IsNullTime, 8) /\ ~EncMatches([cfg EXCEPT !.nullProto = TRUE], T, e.v, e.out.bytes)
            THEN \* a valid null.Time is not a protobuf Timestamp with plain varints in ProtoCompatibleTime mode
                 IF "F19" \in OpenFindings /\ EncMatches(cfg, T, e.v, e.out.bytes) THEN "known:F19" ELSE "null-time-not-proto"
       ELSE "ok"

\* ---- C13: descriptor-driven JSON equals the typed decode, for the three ways of obtaining the descriptor ----
RECURSIVE JsonFrom(_, _, _, _, _)
JsonFrom(e, cfg, T, js, i) ==
  IF i > Len(js) THEN "ok"
  ELSE LET r == js[i]
           res == IF r.panic THEN "panic:" \o r.where
                  ELSE IF r.err # "" THEN "walk-error"
                  ELSE IF ~r.valid THEN "invalid-json"
                  ELSE IF r.perr # "" THEN "unparsable"
                  ELSE IF ~(e.out.jsonable.finite /\ e.out.jsonable.times /\ e.out.jsonable.utf8) THEN "ok"   \* outside the statement's value domain: validity only
                  ELSE LET nv == e.v IN       \* JMatch normalises slices itself; omission is decided on the value as marshalled
                       IF Omit(cfg, T, nv) /\ Resolve(T).k \notin {"struct"} THEN "ok"      \* nothing was encoded: an empty walk
                       ELSE LET w == JWhere(cfg, T, nv, r.tree) IN
                            IF w = "" THEN "ok"
                            ELSE IF "F20" \in OpenFindings /\ JMatch([cfg EXCEPT !.flatUnsigned = TRUE], T, nv, r.tree) THEN "known:F20"
                            ELSE IF "F21" \in OpenFindings /\ JMatch([cfg EXCEPT !.timeAsZigZag = TRUE, !.flatUnsigned = TRUE], T, nv, r.tree) THEN "known:F21"
                            ELSE "content:" \o w
           \* finding F18: the walker cannot read the repeated-field form (its descriptor is that of the counted form)
           res2 == IF res \notin {"ok", "known:F20", "known:F21"} /\ "F18" \in OpenFindings /\ AnySub(T, LAMBDA X : IsRepeated(cfg, X), 8)
                      /\ ~r.panic /\ (r.err # "" \/ (r.valid /\ r.perr = ""))
                   THEN "known:F18" ELSE res IN
       IF res2 \notin {"ok"} /\ ~(SubSeq(res2, 1, 6) = "known:" /\ i < Len(js)) THEN (IF SubSeq(res2, 1, 6) = "known:" THEN res2 ELSE res2 \o "-via-" \o r.via)
       ELSE JsonFrom(e, cfg, T, js, i + 1)
JudgeC13(e, cfg, T) ==
  IF Crashed(e) \/ e.out.panic \/ e.out.merr # "" THEN "ok"
  ELSE IF ~e.out.jsonable.finite THEN "ok"             \* NaN / infinities have no JSON form
  ELSE JsonFrom(e, cfg, T, e.out.json, 1)

Judge(e) ==
  LET cfg == McCfg(e)  T == Bake(e.T, "") IN
  << <<"C01", JudgeC01(e, cfg, T)>>, <<"C02", JudgeC02(e, cfg, T)>>,
     <<"C05", JudgeC05(e, cfg, T)>>, <<"C11", JudgeC11(e, cfg, T)>>,
     <<"C09", JudgeC09(e, cfg, T)>>, <<"C14", JudgeC14(e, cfg, T)>>, <<"C12", JudgeC12(e, cfg, T)>>,
     <<"C13", JudgeC13(e, cfg, T)>> >>

NonOk(vs) == {i \in 1..Len(vs) : vs[i][2] # "ok"}

Init == l = 1 /\ bad = 0
Next == /\ l <= Len(Trace)
        /\ LET e == Trace[l]  vs == Judge(e) IN
           /\ \A i \in NonOk(vs) : PrintT("VERDICT " \o ToString(e.id) \o " " \o vs[i][1] \o " " \o vs[i][2])
           /\ bad' = bad + (IF NonOk(vs) = {} THEN 0 ELSE 1)
        /\ l' = l + 1
Spec == Init /\ [][Next]_vars
Accepted == l = Len(Trace) + 1
Finished == (l = Len(Trace) + 1) => PrintT(<<"JUDGED", Len(Trace), bad>>)
=============================================================================
