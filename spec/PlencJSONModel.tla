--------------------------- MODULE PlencJSONModel ---------------------------
(* The JSON data-model image of a value (DESIGN.md A.7) as a matcher against a    *)
(* parsed JSON tree: JMatch(cfg, T, v, tree).  The tree is what encoding/json     *)
(* parsed from the real output: [k: obj|arr|str|num|bool|null, ...]; object       *)
(* members are <<key bytes, tree, key string>> in document order.                 *)
EXTENDS PlencDecode, FiniteSets

RECURSIVE JMatch(_, _, _, _), JWhere(_, _, _, _), JMapVal(_, _, _, _), JMatchJ(_, _)
\* a JSON-any value (C16) against the parsed tree
JMatchJ(x, o) ==
  CASE x.k = "nil" -> o.k = "null"
    [] x.k = "bool" -> o.k = "bool" /\ o.v = x.v
    [] x.k = "int" -> o.k = "num" /\ o.t = DecText(x.i)
    [] x.k = "float" -> o.k = "num" /\ o.f64 = x.f
    [] x.k = "str" -> o.k = "str" /\ o.b = x.b
    [] x.k = "num" -> o.k = "num" /\ o.t = x.b
    [] x.k = "arr" -> o.k = "arr" /\ Len(o.e) = Len(x.e) /\ \A i \in 1..Len(x.e) : JMatchJ(x.e[i], o.e[i])
    [] x.k = "obj" -> o.k = "obj" /\ Len(o.m) = Len(x.m) /\ \A i \in 1..Len(x.m) : \E j \in 1..Len(o.m) : o.m[j][1] = x.m[i][1] /\ JMatchJ(x.m[i][2], o.m[j][2])
    [] OTHER -> FALSE
PresentFields(cfg, T, v) == SelectSeq([i \in 1..Len(T.f) |-> i], LAMBDA i : T.f[i].enc /\ ~Omit(cfg, T.f[i].t, v[i]))
StringKeyed(T) == Resolve(T.key).k = "string"
MemberNamed(o, name) == {j \in 1..Len(o.m) : o.m[j][3] = name}

JMatch(cfg, T0, v, o) == LET T == Resolve(T0) IN
  CASE T.k = "bool" -> o.k = "bool" /\ o.v = v
    [] T.k = "uint" -> o.k = "num" /\ o.t = DecText(v)
    [] T.k = "int" -> o.k = "num" /\ (o.t = DecText(v) \/
                        \* finding F20: the descriptor of a flat int does not carry its width; a negative value of a narrow flat int
                        \* is rendered as the unsigned value of its two's complement bits
                        (cfg.flatUnsigned /\ T.flat /\ T.w < 64 /\ v.neg /\ o.t = DecText([neg |-> FALSE, mag |-> Bits(T.w, v)])))
    [] T.k = "f64" -> o.k = "num" /\ o.f64 = v
    [] T.k = "f32" -> o.k = "num" /\ o.f32 = v
    [] T.k = "string" -> o.k = "str" /\ o.b = v
    [] T.k = "bytes" -> o.k = "str" /\ o.b = v.b
    [] T.k \in {"time", "bqtime"} -> o.k = "str" /\
         ((o.tm.ok /\ o.tm.sec.neg = v.sec.neg /\ o.tm.sec.mag = v.sec.mag
           /\ o.tm.nsec = (IF T.k = "bqtime" THEN (v.nsec \div 1000) * 1000 ELSE v.nsec))       \* the BigQuery timestamp is in microseconds
          \* finding F21: the descriptor does not say that a ProtoCompatibleTime time is not zig-zag encoded; the walker reads
          \* it as zig-zag and renders some other (possibly unparsable, year > 9999) time
          \/ (cfg.timeAsZigZag /\ cfg.protoTime /\ T.k = "time"))
    [] T.k = "null" -> JMatch(cfg, NullBase(T.of), v.v, o)
    [] T.k = "ptr" -> JMatch(cfg, T.e, v.v, o)
    [] T.k = "struct" ->
         LET ps == PresentFields(cfg, T, v) IN
         /\ o.k = "obj" /\ Len(o.m) = Len(ps)
         /\ \A j \in 1..Len(ps) : o.m[j][3] = T.f[ps[j]].n /\ JMatch(cfg, T.f[ps[j]].t, v[ps[j]], o.m[j][2])
    [] T.k = "slice" -> LET es == Norm(cfg, T, v, FALSE).e IN     \* exactly the encoded elements (nil pointer entries dropped / zero placeholders)
                        o.k = "arr" /\ Len(o.e) = Len(es) /\ \A i \in 1..Len(es) : JMatch(cfg, T.e, es[i], o.e[i])
    [] T.k = "map" ->
         IF StringKeyed(T)
         THEN /\ o.k = "obj" /\ Len(o.m) = Len(v.m)
              /\ \A i \in 1..Len(v.m) : \E j \in 1..Len(o.m) : o.m[j][1] = v.m[i][1] /\ JMapVal(cfg, T.val, v.m[i][2], o.m[j][2])
         ELSE /\ o.k = "arr" /\ Len(o.e) = Len(v.m)
              /\ \A i \in 1..Len(v.m) : \E j \in 1..Len(o.e) :
                    LET ent == o.e[j]  ks == IF ent.k = "obj" THEN MemberNamed(ent, "key") ELSE {}  vs == IF ent.k = "obj" THEN MemberNamed(ent, "value") ELSE {} IN
                    /\ ent.k = "obj" /\ Len(ent.m) = Cardinality(ks) + Cardinality(vs)
                    /\ (IF ks = {} THEN Omit(cfg, T.key, v.m[i][1]) ELSE JMatch(cfg, T.key, Norm(cfg, T.key, v.m[i][1], TRUE), ent.m[CHOOSE x \in ks : TRUE][2]))
                    /\ (IF vs = {} THEN Omit(cfg, T.val, v.m[i][2]) ELSE JMatch(cfg, T.val, Norm(cfg, T.val, v.m[i][2], TRUE), ent.m[CHOOSE x \in vs : TRUE][2]))
    [] T.k \in {"jsonobj", "jsonarr"} -> JMatchJ(v, o)
    [] OTHER -> TRUE

\* a map value: an absent (nil / invalid) value of a type with explicit presence is JSON null
HasPresence(T0) == Resolve(T0).k \in {"ptr", "null"}
JMapVal(cfg, T, v, o) == IF HasPresence(T) /\ Omit(cfg, T, v) THEN o.k = "null" ELSE JMatch(cfg, T, Norm(cfg, T, v, TRUE), o)

\* a short description of the first mismatch (for verdict messages)
JWhere(cfg, T0, v, o) == LET T == Resolve(T0) IN
  IF JMatch(cfg, T, v, o) THEN ""
  ELSE CASE T.k = "struct" ->
              (LET ps == PresentFields(cfg, T, v) IN
               IF o.k # "obj" THEN "not-an-object"
               ELSE IF Len(o.m) # Len(ps) THEN "object-member-count"
               ELSE LET wrong == {j \in 1..Len(ps) : ~(o.m[j][3] = T.f[ps[j]].n /\ JMatch(cfg, T.f[ps[j]].t, v[ps[j]], o.m[j][2]))} IN
                    LET j == CHOOSE x \in wrong : \A y \in wrong : x <= y IN
                    IF o.m[j][3] # T.f[ps[j]].n THEN "member-name" ELSE ".f" \o ToString(ps[j]) \o JWhere(cfg, T.f[ps[j]].t, v[ps[j]], o.m[j][2]))
         [] T.k = "slice" ->
              (LET es == Norm(cfg, T, v, FALSE).e IN
               IF o.k # "arr" THEN "not-an-array" ELSE IF Len(o.e) # Len(es) THEN "array-element-count"
               ELSE LET wrong == {i \in 1..Len(es) : ~JMatch(cfg, T.e, es[i], o.e[i])} IN
                    LET i == CHOOSE x \in wrong : \A y \in wrong : x <= y IN "[]" \o JWhere(cfg, T.e, es[i], o.e[i]))
         [] T.k = "map" -> IF StringKeyed(T) THEN (IF o.k # "obj" THEN "map-not-an-object" ELSE IF Len(o.m) # Len(v.m) THEN "map-member-count" ELSE "map-member")
                           ELSE (IF o.k # "arr" THEN "map-not-a-list" ELSE IF Len(o.e) # Len(v.m) THEN "map-entry-count" ELSE "map-entry")
         [] T.k \in {"ptr"} -> "*" \o JWhere(cfg, T.e, v.v, o)
         [] T.k = "null" -> "?" \o JWhere(cfg, NullBase(T.of), v.v, o)
         [] OTHER -> "leaf-" \o T.k
=============================================================================
