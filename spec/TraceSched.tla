------------------------------- MODULE TraceSched -------------------------------
(* Judges "sched" events (C07, C19): goroutines making their first use of related    *)
(* types on one fresh instance, interleaved at the yield hooks according to a        *)
(* schedule.  Every goroutine's result must be what the sequential specification     *)
(* gives for its call alone: Marshal bytes = Encode, Unmarshal value = Normalise,    *)
(* CodecForType succeeds; nothing panics, faults or hangs.                           *)
EXTENDS KnownDeviations, Json

CONSTANTS TraceFile, EnvFile
EnvDef == JsonDeserialize(EnvFile)
Trace == ndJsonDeserialize(TraceFile)
VARIABLES l, bad
vars == <<l, bad>>
McCfg(e) == [Cfg0 EXCEPT !.protoTime = e.cfg.protoTime, !.protoArrays = e.cfg.protoArrays]

ProcOK(cfg, pr, r) ==
  LET T == Bake(pr.T, "") IN
  IF r.panic THEN "panic:" \o r.where
  ELSE IF r.state # "done" THEN "goroutine-never-finished"
  ELSE IF pr.op = "corrupt" THEN "ok"                 \* a truncated input: value or error (C04); it is here for what it leaves behind
  ELSE IF r.err # "" THEN "error-under-concurrency"
  ELSE CASE pr.op = "marshal" -> IF EncMatches(cfg, T, pr.v, r.bytes) THEN "ok" ELSE "bytes-differ-from-sequential"
         [] pr.op = "unmarshal" -> IF Eq(T, r.back, Norm(cfg, T, pr.v, TRUE)) THEN "ok" ELSE "value-differs-from-sequential@" \o Diff(T, r.back, Norm(cfg, T, pr.v, TRUE))
         [] OTHER -> "ok"
\* free-running stress: every distinct result a goroutine produced (marshal followed by unmarshal) is the sequential one
StressOK(cfg, pr, rs) ==
  LET T == Bake(pr.T, "")
      one(r) == IF r.panic THEN "panic:" \o r.where
                ELSE IF r.err # "" THEN "error-under-concurrency"
                ELSE IF ~EncMatches(cfg, T, pr.v, r.bytes) THEN "bytes-differ-from-sequential"
                ELSE IF r.haveBack /\ ~Eq(T, r.back, Norm(cfg, T, pr.v, TRUE)) THEN "value-differs-from-sequential"
                ELSE "ok"
      wrong == {j \in 1..Len(rs) : one(rs[j]) # "ok"} IN
  IF wrong = {} THEN "ok" ELSE one(rs[CHOOSE j \in wrong : TRUE])
JudgeC07(e) ==
  IF e.out.kind = "race" THEN "data-race:" \o e.out.where
  ELSE IF e.out.kind \in {"fatal", "timeout", "oom"} THEN "crash-" \o e.out.kind \o ":" \o e.out.where
  ELSE IF e.ev = "stress" THEN
       LET cfg == McCfg(e)
           res == [i \in 1..Len(e.procs) |-> StressOK(cfg, e.procs[i], e.out.results[i])]
           wrong == {i \in 1..Len(res) : res[i] # "ok"} IN
       IF wrong = {} THEN "ok" ELSE LET i == CHOOSE x \in wrong : \A y \in wrong : x <= y IN "stress-p" \o ToString(i - 1) \o ":" \o res[i]
  ELSE LET cfg == McCfg(e)
           res == [i \in 1..Len(e.procs) |-> ProcOK(cfg, e.procs[i], e.out.results[i])]
           wrong == {i \in 1..Len(res) : res[i] # "ok"} IN
       IF wrong = {} THEN "ok" ELSE LET i == CHOOSE x \in wrong : \A y \in wrong : x <= y IN "p" \o ToString(i - 1) \o ":" \o res[i]

\* C11 under concurrency: after every goroutine has returned, the callers overwrite their input buffers; the decoded values are read again
JudgeC11(e) ==
  IF e.ev # "sched" \/ e.out.kind # "ok" THEN "ok"
  ELSE LET chg == {i \in 1..Len(e.procs) : /\ e.procs[i].op = "unmarshal" /\ ~e.out.results[i].panic /\ e.out.results[i].err = ""
                                          /\ "backAfter" \in DOMAIN e.out.results[i]
                                          /\ ~Eq(Bake(e.procs[i].T, ""), e.out.results[i].backAfter, e.out.results[i].back)} IN
       IF chg = {} THEN "ok"
       ELSE LET i == CHOOSE x \in chg : \A y \in chg : x <= y IN
            "p" \o ToString(i - 1) \o ":decoded-value-changes-when-the-input-buffer-is-overwritten@" \o
            Diff(Bake(e.procs[i].T, ""), e.out.results[i].backAfter, e.out.results[i].back)

Init == l = 1 /\ bad = 0
Next == /\ l <= Len(Trace)
        /\ LET e == Trace[l]  v == JudgeC07(e)  w == JudgeC11(e) IN
           /\ (v # "ok" => PrintT("VERDICT " \o ToString(e.id) \o " C07 " \o v))
           /\ (w # "ok" => PrintT("VERDICT " \o ToString(e.id) \o " C11 " \o w))
           /\ bad' = bad + (IF v = "ok" THEN 0 ELSE 1) + (IF w = "ok" THEN 0 ELSE 1)
        /\ l' = l + 1
Spec == Init /\ [][Next]_vars
Finished == (l = Len(Trace) + 1) => PrintT(<<"JUDGED", Len(Trace), bad>>)
=============================================================================
