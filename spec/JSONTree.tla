------------------------------- MODULE JSONTree -------------------------------
(* The pure part of the JSON outputter specification: token-level punctuation        *)
(* rules, a recursive-descent parser over tokens and the abstract document (call     *)
(* tree) a well-nested sequence of Outputter calls describes.                        *)
EXTENDS Integers, Sequences, FiniteSets, TLC

\* ---------- pure part: token output, parser, expected tree of a call sequence ----------
P(x) == <<"p", x>>
W(x) == <<"w", x>>
Indent(n) == [i \in 1..n |-> W("ind")]

Punct(st) == IF st = <<>> THEN <<>>
             ELSE CASE st[Len(st)] = "key"      -> <<P(":"), W("sp")>>
                    [] st[Len(st)] = "objvalue" -> <<P(","), W("nl")>>
                    [] st[Len(st)] = "value"    -> <<P(","), W("nl")>>
PunctState(st) == IF st = <<>> THEN st
             ELSE CASE st[Len(st)] = "key"      -> [st EXCEPT ![Len(st)] = "objvalue"]
                    [] st[Len(st)] = "objvalue" -> [st EXCEPT ![Len(st)] = "key"]
                    [] st[Len(st)] = "value"    -> st
\* end(): trim a trailing ",\n" to "\n"
EndData(d) == LET n == Len(d) IN
              IF n >= 2 /\ d[n - 1] = P(",") /\ d[n] = W("nl") THEN SubSeq(d, 1, n - 2) \o <<W("nl")>> ELSE d

NoWS(d) == SelectSeq(d, LAMBDA t : t[1] # "w")
IsScalarTok(t) == t[1] = "s"
IsKeyTok(t)    == t[1] = "k"
Fail == [ok |-> FALSE, t |-> <<>>, rest |-> <<>>]
RECURSIVE PValue(_), PMembers(_, _), PElems(_, _)
PValue(ts) ==
  IF ts = <<>> THEN Fail
  ELSE IF IsScalarTok(ts[1]) THEN [ok |-> TRUE, t |-> [k |-> "s", v |-> ts[1][2]], rest |-> Tail(ts)]
  ELSE IF ts[1] = P("{") THEN
         (IF Len(ts) >= 2 /\ ts[2] = P("}") THEN [ok |-> TRUE, t |-> [k |-> "o", m |-> <<>>], rest |-> SubSeq(ts, 3, Len(ts))]
          ELSE PMembers(Tail(ts), <<>>))
  ELSE IF ts[1] = P("[") THEN
         (IF Len(ts) >= 2 /\ ts[2] = P("]") THEN [ok |-> TRUE, t |-> [k |-> "a", e |-> <<>>], rest |-> SubSeq(ts, 3, Len(ts))]
          ELSE PElems(Tail(ts), <<>>))
  ELSE Fail
PMembers(ts, acc) ==
  IF Len(ts) < 3 \/ ~IsKeyTok(ts[1]) \/ ts[2] # P(":") THEN Fail
  ELSE LET r == PValue(SubSeq(ts, 3, Len(ts))) IN
       IF ~r.ok \/ r.rest = <<>> THEN Fail
       ELSE LET acc2 == Append(acc, <<ts[1][2], r.t>>) IN
            IF r.rest[1] = P(",") THEN PMembers(Tail(r.rest), acc2)
            ELSE IF r.rest[1] = P("}") THEN [ok |-> TRUE, t |-> [k |-> "o", m |-> acc2], rest |-> Tail(r.rest)]
            ELSE Fail
PElems(ts, acc) ==
  LET r == PValue(ts) IN
  IF ~r.ok \/ r.rest = <<>> THEN Fail
  ELSE LET acc2 == Append(acc, r.t) IN
       IF r.rest[1] = P(",") THEN PElems(Tail(r.rest), acc2)
       ELSE IF r.rest[1] = P("]") THEN [ok |-> TRUE, t |-> [k |-> "a", e |-> acc2], rest |-> Tail(r.rest)]
       ELSE Fail
Parse(d) == LET r == PValue(NoWS(d)) IN IF r.ok /\ r.rest = <<>> THEN <<r.t>> ELSE <<>>

\* The abstract document a (well-nested) call sequence describes.  A call is [op, x]: op in
\* "so" "eo" "sa" "ea" (start / end object / array), "nf" (NameField x), "sc" (a scalar call x).
\* cx = stack of open containers; returns <<tree>> or <<>> when the sequence is not a complete well-nested document.
AttachTo(cs, rt, t) ==
   IF cs = <<>> THEN [ctx |-> cs, root |-> <<t>>]
   ELSE LET c == cs[Len(cs)] IN
        [root |-> rt,
         ctx |-> [cs EXCEPT ![Len(cs)] = IF c.k = "arr" THEN [c EXCEPT !.e = Append(@, t)]
                                        ELSE [c EXCEPT !.m = Append(@, <<c.key, t>>), !.want = "key"]]]
ValueOK(cs, rt) == IF cs = <<>> THEN rt = <<>> ELSE LET c == cs[Len(cs)] IN c.k = "arr" \/ c.want = "value"
RECURSIVE RunFrom(_, _, _, _)
RunFrom(calls, i, cs, rt) ==
  IF i > Len(calls) THEN (IF cs = <<>> THEN rt ELSE <<>>)
  ELSE LET c == calls[i] IN
    CASE c.op = "sc" -> IF ~ValueOK(cs, rt) THEN <<>> ELSE LET a == AttachTo(cs, rt, [k |-> "s", v |-> c.x]) IN RunFrom(calls, i + 1, a.ctx, a.root)
      [] c.op = "so" -> IF ~ValueOK(cs, rt) THEN <<>> ELSE RunFrom(calls, i + 1, Append(cs, [k |-> "obj", m |-> <<>>, key |-> <<>>, want |-> "key", e |-> <<>>]), rt)
      [] c.op = "sa" -> IF ~ValueOK(cs, rt) THEN <<>> ELSE RunFrom(calls, i + 1, Append(cs, [k |-> "arr", m |-> <<>>, key |-> <<>>, want |-> "", e |-> <<>>]), rt)
      [] c.op = "nf" -> IF cs = <<>> \/ cs[Len(cs)].k # "obj" \/ cs[Len(cs)].want # "key" THEN <<>>
                        ELSE RunFrom(calls, i + 1, [cs EXCEPT ![Len(cs)].key = c.x, ![Len(cs)].want = "value"], rt)
      [] c.op \in {"eo", "ea"} ->
           IF cs = <<>> \/ cs[Len(cs)].k # (IF c.op = "eo" THEN "obj" ELSE "arr") \/ (c.op = "eo" /\ cs[Len(cs)].want # "key") THEN <<>>
           ELSE LET top == cs[Len(cs)]
                    t == IF c.op = "eo" THEN [k |-> "o", m |-> top.m] ELSE [k |-> "a", e |-> top.e]
                    a == AttachTo(SubSeq(cs, 1, Len(cs) - 1), rt, t) IN
                RunFrom(calls, i + 1, a.ctx, a.root)
TreeOf(calls) == RunFrom(calls, 1, <<>>, <<>>)

=============================================================================
