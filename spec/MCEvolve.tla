------------------------------- MODULE MCEvolve -------------------------------
(* C03 / C10 on the model: data written from a struct S decodes into any S'       *)
(* obtained by removing / adding / reordering fields; shared indexes receive the   *)
(* value, absent ones keep the prior, unknown fields of every wire type are        *)
(* skipped exactly.  Decode (frame walking, skipping, merge) is checked against    *)
(* an independent, direct definition Project.  Every case is emitted as an         *)
(* "evolve" event for the real library.                                            *)
EXTENDS PlencDecode, Json, FiniteSets

CONSTANTS Emit, Nest        \* Nest: the set of nesting modes explored, subset of {"top", "nested", "slice"}
MCEnv == [none |-> [k |-> "bool"]]

VARIABLES st, c
vars == <<st, c>>

IntT == [k |-> "int", w |-> 64]
StrT == [k |-> "string"]
F(nm, i, t) == [i |-> i, n |-> nm, gn |-> nm, enc |-> TRUE, opt |-> "", tag |-> "", t |-> t]
St(fs) == [k |-> "struct", name |-> "", f |-> fs]
Inner == St(<<F("P", 1, IntT), F("Q", 2, StrT)>>)
\* one kind per wire type and container form
KindT == [ vi |-> IntT, f32 |-> [k |-> "f32"], f64 |-> [k |-> "f64"], str |-> StrT, st |-> Inner,
           pk |-> [k |-> "slice", e |-> [k |-> "uint", w |-> 32]], ct |-> [k |-> "slice", e |-> StrT],
           mp |-> [k |-> "map", key |-> StrT, val |-> IntT], tm |-> [k |-> "time"], cs |-> [k |-> "slice", e |-> Inner] ]
Kinds == DOMAIN KindT
I(n) == [neg |-> FALSE, mag |-> NatLimbs(n)]
\* a non-zero value and a different non-zero prior per kind
Val == [ vi |-> I(300), f32 |-> <<0, 0, 128, 63>>, f64 |-> <<0, 0, 0, 0, 0, 0, 240, 63>>, str |-> <<104, 105>>, st |-> <<I(5), <<113>>>>,
         pk |-> [nil |-> FALSE, e |-> <<I(1), I(200)>>], ct |-> [nil |-> FALSE, e |-> <<<<97>>, <<>>>>],
         mp |-> [nil |-> FALSE, m |-> << <<<<107>>, I(2)>> >>], tm |-> [sec |-> I(1000), nsec |-> 5],
         cs |-> [nil |-> FALSE, e |-> << <<I(1), <<>>>>, <<I(0), <<122>>>> >>] ]
Pri == [ vi |-> I(9), f32 |-> <<0, 0, 0, 64>>, f64 |-> <<0, 0, 0, 0, 0, 0, 0, 64>>, str |-> <<112>>, st |-> <<I(8), <<112, 112>>>>,
         pk |-> [nil |-> FALSE, e |-> <<I(7), I(7), I(7)>>], ct |-> [nil |-> FALSE, e |-> <<<<112>>>>],
         mp |-> [nil |-> FALSE, m |-> << <<<<112>>, I(1)>>, <<<<107>>, I(9)>> >>], tm |-> [sec |-> I(77), nsec |-> 1],
         cs |-> [nil |-> FALSE, e |-> << <<I(4), <<112>>>> >>] ]

\* S = {A `1`, B `2`, C `3`}; S' variants
Variants == {"AC", "C", "CA", "ACD", "ABC", "B"}
TS(ka, kb, kc) == St(<<F("A", 1, KindT[ka]), F("B", 2, KindT[kb]), F("C", 3, KindT[kc])>>)
T2S(var, ka, kb, kc) ==
  CASE var = "AC"  -> St(<<F("A", 1, KindT[ka]), F("C", 3, KindT[kc])>>)
    [] var = "C"   -> St(<<F("C", 3, KindT[kc])>>)
    [] var = "CA"  -> St(<<F("Cx", 3, KindT[kc]), F("Ax", 1, KindT[ka])>>)
    [] var = "ACD" -> St(<<F("A", 1, KindT[ka]), F("C", 3, KindT[kc]), F("D", 4, StrT)>>)
    [] var = "ABC" -> TS(ka, kb, kc)
    [] var = "B"   -> St(<<F("B", 2, KindT[kb])>>)
Pick(k, nz) == IF nz THEN Val[k] ELSE Zero(Bake(KindT[k], ""))
VS(ka, kb, kc, z) == <<Pick(ka, z[1]), Pick(kb, z[2]), Pick(kc, z[3])>>
PriorS(var, ka, kb, kc) ==
  CASE var = "AC"  -> <<Pri[ka], Pri[kc]>>
    [] var = "C"   -> <<Pri[kc]>>
    [] var = "CA"  -> <<Pri[kc], Pri[ka]>>
    [] var = "ACD" -> <<Pri[ka], Pri[kc], <<100>>>>
    [] var = "ABC" -> <<Pri[ka], Pri[kb], Pri[kc]>>
    [] var = "B"   -> <<Pri[kb]>>

\* nesting modes: the pair (S, S') at the top, inside an outer struct, inside a slice of structs
Wrap(mode, t) == CASE mode = "top" -> t
                   [] mode = "nested" -> St(<<F("X", 7, t), F("Y", 8, IntT)>>)
                   [] mode = "slice" -> St(<<F("X", 7, [k |-> "slice", e |-> t]), F("Y", 8, IntT)>>)
WrapV(mode, v) == CASE mode = "top" -> v
                    [] mode = "nested" -> <<v, I(6)>>
                    [] mode = "slice" -> <<[nil |-> FALSE, e |-> <<v, v>>], I(6)>>
WrapP(mode, p) == CASE mode = "top" -> p
                    [] mode = "nested" -> <<p, I(3)>>
                    [] mode = "slice" -> <<[nil |-> FALSE, e |-> <<p>>], I(3)>>

\* ---- the direct definition of what the target must hold afterwards ----
MergeMap(T, prior, v) ==       \* entries of v replace / extend those of prior, by key
  LET keep == SelectSeq(prior.m, LAMBDA kv : \A j \in 1..Len(v.m) : ~Eq(T.key, v.m[j][1], kv[1])) IN
  [nil |-> FALSE, m |-> keep \o v.m]
RECURSIVE ProjField(_, _, _, _), ProjStruct(_, _, _, _, _)
ProjField(cfg, T0, v, prior) == LET T == Resolve(T0) IN      \* same type on both sides (shared index)
  IF Omit(cfg, T, v) THEN prior
  ELSE CASE T.k = "struct" -> ProjStruct(cfg, T, T, v, prior)
         [] T.k = "map" -> MergeMap(T, prior, v)
         [] OTHER -> Norm(cfg, T, v, TRUE)
\* S (data) and S' (target) may differ
ProjStruct(cfg, S, S2, v, prior) ==
  [j \in 1..Len(S2.f) |->
     LET hits == {i \in 1..Len(S.f) : S.f[i].i = S2.f[j].i} IN
     IF hits = {} THEN prior[j]
     ELSE LET i == CHOOSE x \in hits : TRUE IN ProjField(cfg, S2.f[j].t, v[i], prior[j])]
Project(mode, cfg, S, S2, v, prior) ==
  CASE mode = "top" -> ProjStruct(cfg, S, S2, v, prior)
    [] mode = "nested" -> <<ProjStruct(cfg, S, S2, v[1], prior[1]), v[2]>>
    [] mode = "slice" -> <<[nil |-> FALSE, e |-> <<ProjStruct(cfg, S, S2, v[1].e[1], Zero(S2)), ProjStruct(cfg, S, S2, v[1].e[2], Zero(S2))>>], v[2]>>

Init == st = "a" /\ c = [ka |-> "vi", kb |-> "vi", kc |-> "vi", var |-> "AC", z |-> <<TRUE, TRUE, TRUE>>, mode |-> "top"]
Next ==
  \/ st = "a" /\ \E k \in Kinds : c' = [c EXCEPT !.ka = k] /\ st' = "b"
  \/ st = "b" /\ \E k \in Kinds : c' = [c EXCEPT !.kb = k] /\ st' = "c"
  \/ st = "c" /\ \E k \in Kinds : c' = [c EXCEPT !.kc = k] /\ st' = "var"
  \/ st = "var" /\ \E x \in Variants : c' = [c EXCEPT !.var = x] /\ st' = "z"
  \/ st = "z" /\ \E z \in {<<TRUE, TRUE, TRUE>>, <<FALSE, TRUE, TRUE>>, <<TRUE, TRUE, FALSE>>, <<TRUE, FALSE, TRUE>>} : c' = [c EXCEPT !.z = z] /\ st' = "mode"
  \/ st = "mode" /\ \E m \in Nest : c' = [c EXCEPT !.mode = m] /\ st' = "done"
Spec == Init /\ [][Next]_vars

Done == st = "done"
RawS == Wrap(c.mode, TS(c.ka, c.kb, c.kc))
RawS2 == Wrap(c.mode, T2S(c.var, c.ka, c.kb, c.kc))
S == Bake(RawS, "")
S2 == Bake(RawS2, "")
V == WrapV(c.mode, VS(c.ka, c.kb, c.kc, c.z))
P == WrapP(c.mode, PriorS(c.var, c.ka, c.kb, c.kc))
InnerS == Bake(TS(c.ka, c.kb, c.kc), "")
InnerS2 == Bake(T2S(c.var, c.ka, c.kb, c.kc), "")

Evolves == Done =>
  LET d == Decode(Cfg0, S2, Encode(Cfg0, S, V), P) IN
  d.ok /\ Eq(S2, d.v, Project(c.mode, Cfg0, InnerS, InnerS2, V, P))
\* unknown fields are skipped exactly: the frames of the encoding tile it, and the field after the skipped one is found
SkipExact == Done => LET fr == Frames(Encode(Cfg0, Bake(TS(c.ka, c.kb, c.kc), ""), VS(c.ka, c.kb, c.kc, c.z))) IN
  fr.ok /\ Len(fr.x) = Cardinality({i \in 1..3 : c.z[i] \/ KindT[<<c.ka, c.kb, c.kc>>[i]].k = "struct"})

CaseJson == ToJson([ev |-> "evolve", S |-> RawS, S2 |-> RawS2, v |-> V, prior |-> P, u |-> <<c.var, c.mode>>])
EmitCase == (Done /\ Emit) => PrintT(<<"CASE", CaseJson>>)
=============================================================================
