------------------------------ MODULE PlencJudge ------------------------------
(* Value-level expectations (Normalise, typed equality) and the order-         *)
(* insensitive byte matcher used to judge recorded executions.                 *)
EXTENDS PlencCodec

\* ---- the documented normalisations, nothing else (DESIGN.md A.3) ----
\* omitPos: the value stands where omission applies (struct field, map key / value, top level)
EmptyRepMap(cfg, T0, v) == LET T == Resolve(T0) IN T.k = "map" /\ T.proto /\ v.m = <<>>
RECURSIVE Norm(_, _, _, _), NormElems(_, _, _, _, _), NormJ(_)
Norm(cfg, T0, v, omitPos) == LET T == Resolve(T0) IN
  CASE T.k \in {"bool", "int", "uint", "string", "marked"} -> v
    [] T.k \in {"f32", "f64"} -> IF omitPos /\ IsZeroFloat(v) THEN Zero(T) ELSE v
    [] T.k = "bytes" -> IF v.b = <<>> THEN Zero(T) ELSE [nil |-> FALSE, b |-> v.b]
    [] T.k = "time" -> [sec |-> v.sec, nsec |-> v.nsec]
    [] T.k = "bqtime" -> [sec |-> v.sec, nsec |-> (v.nsec \div 1000) * 1000]       \* the BigQuery timestamp is in microseconds
    [] T.k = "null" -> IF ~v.valid THEN Zero(T) ELSE [valid |-> TRUE, v |-> Norm(cfg, NullBase(T.of), v.v, FALSE)]
    [] T.k = "ptr" -> IF v.nil \/ (IsRepeated(cfg, T.e) /\ Omit(cfg, T.e, v.v)) \/ EmptyRepMap(cfg, T.e, v.v)
                      THEN Zero(T)          \* an empty repeated field has no representation, nor has a pointer to one
                      ELSE LET inner == Norm(cfg, T.e, v.v, FALSE) IN
                           \* ... nor has a pointer to a repeated slice all of whose elements are dropped (nil pointers leave no frame)
                           IF IsRepeated(cfg, T.e) /\ Resolve(T.e).k = "slice" /\ inner.e = <<>> THEN Zero(T)
                           ELSE [nil |-> FALSE, v |-> inner]
    [] T.k = "slice" -> LET es == NormElems(cfg, T.e, v.e, 1, IsRepeated(cfg, T)) IN
                        IF es = <<>> THEN Zero(T) ELSE [nil |-> FALSE, e |-> es]
    [] T.k = "map" -> IF v.nil \/ (T.proto /\ v.m = <<>>) THEN Zero(T)
                      ELSE [nil |-> FALSE, m |-> [i \in 1..Len(v.m) |->
                               <<Norm(cfg, T.key, v.m[i][1], TRUE), Norm(cfg, T.val, v.m[i][2], TRUE)>>]]
    [] T.k = "struct" -> [i \in 1..Len(T.f) |-> IF T.f[i].enc THEN Norm(cfg, T.f[i].t, v[i], TRUE) ELSE Zero(T.f[i].t)]
    [] T.k \in {"jsonobj", "jsonarr"} -> NormJ(v)
    [] T.k = "unsup" -> <<>>
    [] T.k = "refid" -> [Zero(T) EXCEPT ![1] = v[1]]        \* only the first field travels
\* rep: the slice is written in the repeated-field form, where a nil element leaves no frame at all
NormElems(cfg, E0, es, i, rep) == LET E == Resolve(E0) IN
  IF i > Len(es) THEN <<>>
  ELSE IF E.k = "ptr" /\ es[i].nil
       THEN (IF WT(cfg, E) = WTLength /\ ~rep
             THEN <<[nil |-> FALSE, v |-> Zero(E.e)]>> \o NormElems(cfg, E, es, i + 1, rep)   \* nil -> zero value
             ELSE NormElems(cfg, E, es, i + 1, rep))                                          \* nil dropped
       ELSE <<Norm(cfg, E, es[i], FALSE)>> \o NormElems(cfg, E, es, i + 1, rep)
\* JSON-any: nil and empty containers are interchangeable -> normalise to non-nil
NormJ(x) == CASE x.k = "arr" -> [k |-> "arr", nil |-> FALSE, e |-> [i \in 1..Len(x.e) |-> NormJ(x.e[i])]]
              [] x.k = "obj" -> [k |-> "obj", nil |-> FALSE, m |-> [i \in 1..Len(x.m) |-> <<x.m[i][1], NormJ(x.m[i][2])>>]]
              [] OTHER -> x

\* ---- typed equality: maps are unordered; never compares values of different shapes ----
RECURSIVE Eq(_, _, _), EqMap(_, _, _), EqJ(_, _)
Eq(T0, a, b) == LET T == Resolve(T0) IN
  CASE T.k \in {"bool", "f32", "f64", "string"} -> a = b
    [] T.k \in {"int", "uint", "marked"} -> a.neg = b.neg /\ a.mag = b.mag
    [] T.k = "bytes" -> a.nil = b.nil /\ a.b = b.b
    [] T.k \in {"time", "bqtime"} -> a.sec.neg = b.sec.neg /\ a.sec.mag = b.sec.mag /\ a.nsec = b.nsec
    [] T.k = "null" -> a.valid = b.valid /\ Eq(NullBase(T.of), a.v, b.v)
    [] T.k = "ptr" -> a.nil = b.nil /\ (a.nil \/ Eq(T.e, a.v, b.v))
    [] T.k = "slice" -> a.nil = b.nil /\ Len(a.e) = Len(b.e) /\ \A i \in 1..Len(a.e) : Eq(T.e, a.e[i], b.e[i])
    [] T.k = "map" -> a.nil = b.nil /\ Len(a.m) = Len(b.m) /\ EqMap(T, a.m, b.m) /\ EqMap(T, b.m, a.m)
    [] T.k = "struct" -> \A i \in 1..Len(T.f) : Eq(T.f[i].t, a[i], b[i])
    [] T.k \in {"jsonobj", "jsonarr"} -> EqJ(a, b)
    [] T.k = "unsup" -> TRUE
    [] T.k = "refid" -> Eq(BEnv[T.n], a, b)
EqMap(T, am, bm) == \A i \in 1..Len(am) : \E j \in 1..Len(bm) :
                        Eq(T.key, am[i][1], bm[j][1]) /\ Eq(T.val, am[i][2], bm[j][2])
EqJ(a, b) ==
  /\ a.k = b.k
  /\ CASE a.k = "nil" -> TRUE
       [] a.k \in {"str", "num"} -> a.b = b.b
       [] a.k = "int" -> a.i.neg = b.i.neg /\ a.i.mag = b.i.mag
       [] a.k = "float" -> a.f = b.f
       [] a.k = "bool" -> a.v = b.v
       \* nil and empty containers are interchangeable in the JSON model (C16)
       [] a.k = "arr" -> Len(a.e) = Len(b.e) /\ \A i \in 1..Len(a.e) : EqJ(a.e[i], b.e[i])
       [] a.k = "obj" -> /\ Len(a.m) = Len(b.m)
                         /\ \A i \in 1..Len(a.m) : \E j \in 1..Len(b.m) : a.m[i][1] = b.m[j][1] /\ EqJ(a.m[i][2], b.m[j][2])
                         /\ \A i \in 1..Len(b.m) : \E j \in 1..Len(a.m) : a.m[j][1] = b.m[i][1]


\* ---- where two values differ (for verdict messages): "" when equal, else a path ----
RECURSIVE Diff(_, _, _), DiffSeq(_, _, _, _), DiffFields(_, _, _, _)
Diff(T0, a, b) == LET T == Resolve(T0) IN
  IF Eq(T, a, b) THEN ""
  ELSE CASE T.k = "ptr" -> IF a.nil # b.nil THEN "*nil" ELSE "*" \o Diff(T.e, a.v, b.v)
         [] T.k = "slice" -> IF a.nil # b.nil THEN "[nil]" ELSE IF Len(a.e) # Len(b.e) THEN "[len]" ELSE DiffSeq(T.e, a.e, b.e, 1)
         [] T.k = "map" -> IF a.nil # b.nil THEN "{nil}" ELSE IF Len(a.m) # Len(b.m) THEN "{len}"
                           ELSE LET same == {<<i, j>> \in (1..Len(a.m)) \X (1..Len(b.m)) : Eq(T.key, a.m[i][1], b.m[j][1]) /\ ~Eq(T.val, a.m[i][2], b.m[j][2])} IN
                                IF same = {} THEN "{keys}" ELSE LET p == CHOOSE x \in same : TRUE IN "{}" \o Diff(T.val, a.m[p[1]][2], b.m[p[2]][2])
         [] T.k = "struct" -> DiffFields(T, a, b, 1)
         [] T.k = "refid" -> "<ref>" \o Diff(BEnv[T.n], a, b)
         [] T.k = "null" -> IF a.valid # b.valid THEN "?valid" ELSE "?value"
         [] OTHER -> T.k
DiffSeq(E, as, bs, i) == IF i > Len(as) THEN "" ELSE
                         IF Eq(E, as[i], bs[i]) THEN DiffSeq(E, as, bs, i + 1) ELSE "[" \o ToString(i) \o "]" \o Diff(E, as[i], bs[i])
DiffFields(T, a, b, i) == IF i > Len(T.f) THEN "" ELSE
                          IF Eq(T.f[i].t, a[i], b[i]) THEN DiffFields(T, a, b, i + 1)
                          ELSE ".f" \o ToString(i) \o Diff(T.f[i].t, a[i], b[i])

\* ---- order-insensitive byte matcher ----
RECURSIVE HasMap(_, _)
HasMap(T0, fuel) == LET T == Resolve(T0) IN
  IF fuel = 0 THEN TRUE ELSE
  CASE T.k \in {"map", "jsonobj", "jsonarr"} -> TRUE
    [] T.k \in {"ptr", "slice"} -> HasMap(T.e, fuel - 1)
    [] T.k = "struct" -> \E i \in 1..Len(T.f) : T.f[i].enc /\ HasMap(T.f[i].t, fuel - 1)
    [] OTHER -> FALSE

Remove(s, j) == [i \in 1..(Len(s) - 1) |-> IF i < j THEN s[i] ELSE s[i + 1]]

RECURSIVE MatchBody(_, _, _, _), MatchFramed(_, _, _, _, _), MatchFields(_, _, _, _, _), MatchItems(_, _, _, _, _),
          MatchEntries(_, _, _, _, _), MatchEntry(_, _, _, _), MatchRep(_, _, _, _, _, _), MatchJ(_, _),
          MatchJItems(_, _, _), MatchJEntries(_, _)
\* does b encode v as a stand-alone body?
MatchBody(cfg, T0, v, b) == LET T == Resolve(T0) IN
  IF ~HasMap(T, 6) THEN b = Body(cfg, T, v)
  ELSE CASE T.k = "ptr" -> IF v.nil THEN b = <<>> ELSE MatchBody(cfg, T.e, v.v, b)
         [] T.k = "struct" -> MatchFields(cfg, T.f, v, 1, b)
         [] T.k = "slice" -> (LET c == UV(Len(v.e)) IN    \* elements containing maps are length-delimited: counted form
                              Take(b, Len(c)) = c /\ MatchItems(cfg, T.e, v.e, 1, Drop(b, Len(c))))
         [] T.k = "map" -> (LET c == UV(Len(v.m)) IN
                            Take(b, Len(c)) = c /\ MatchEntries(cfg, T, v.m, Drop(b, Len(c)), <<>>))
         [] T.k = "jsonobj" -> (LET c == UV(Len(v.m)) IN Take(b, Len(c)) = c /\ MatchJEntries(v.m, Drop(b, Len(c))))
         [] T.k = "jsonarr" -> (LET c == UV(Len(v.e)) IN Take(b, Len(c)) = c /\ MatchJItems(v.e, 1, Drop(b, Len(c))))
MatchItems(cfg, E, es, i, b) ==
  IF i > Len(es) THEN b = <<>>
  ELSE LET n == Len(Body(cfg, E, es[i]))  p == UV(n) IN
       /\ Len(b) >= Len(p) + n /\ Take(b, Len(p)) = p
       /\ MatchBody(cfg, E, es[i], Slice(b, Len(p), n))
       /\ MatchItems(cfg, E, es, i + 1, Drop(b, Len(p) + n))
\* entries in any order; pre = per-entry tag (repeated form) or <<>>
MatchEntries(cfg, T, m, b, pre) ==
  IF m = <<>> THEN b = <<>>
  ELSE /\ Take(b, Len(pre)) = pre
       /\ LET r == ReadLen(Drop(b, Len(pre))) IN
          /\ r.ok /\ r.v <= Len(b) - Len(pre) - r.n
          /\ LET chunk == Slice(b, Len(pre) + r.n, r.v)
                 rest == Drop(b, Len(pre) + r.n + r.v) IN
             \E j \in 1..Len(m) : MatchEntry(cfg, T, m[j], chunk) /\ MatchEntries(cfg, T, Remove(m, j), rest, pre)
MatchEntry(cfg, T, kv, b) ==
  LET kb == IF Omit(cfg, T.key, kv[1]) THEN <<>> ELSE Framed(cfg, T.key, kv[1], 1) IN
  /\ Take(b, Len(kb)) = kb
  /\ (IF Omit(cfg, T.val, kv[2]) THEN Len(b) = Len(kb) ELSE MatchFramed(cfg, T.val, kv[2], 2, Drop(b, Len(kb))))
MatchRep(cfg, E, es, i, idx, b) ==
  IF i > Len(es) THEN b = <<>>
  ELSE IF Resolve(E).k = "ptr" /\ es[i].nil THEN MatchRep(cfg, E, es, i + 1, idx, b)
  ELSE LET n == Len(Body(cfg, E, es[i]))  p == Tag(WTLength, idx) \o UV(n) IN
       /\ Len(b) >= Len(p) + n /\ Take(b, Len(p)) = p
       /\ MatchBody(cfg, E, es[i], Slice(b, Len(p), n))
       /\ MatchRep(cfg, E, es, i + 1, idx, Drop(b, Len(p) + n))
MatchFramed(cfg, T0, v, idx, b) == LET T == Resolve(T0) IN
  IF ~HasMap(T, 6) THEN b = Framed(cfg, T, v, idx)
  ELSE IF T.k = "ptr" THEN (IF v.nil THEN b = <<>> ELSE MatchFramed(cfg, T.e, v.v, idx, b))
  ELSE IF T.k = "map" /\ T.proto THEN MatchEntries(cfg, T, v.m, b, Tag(WTLength, idx))
  ELSE IF T.k = "slice" /\ IsRepeated(cfg, T) THEN MatchRep(cfg, T.e, v.e, 1, idx, b)
  ELSE LET w == WT(cfg, T)  t == Tag(w, idx) IN
       /\ Take(b, Len(t)) = t
       /\ IF w = WTLength
          THEN LET r == ReadLen(Drop(b, Len(t))) IN
               r.ok /\ r.v = Len(b) - Len(t) - r.n /\ MatchBody(cfg, T, v, Drop(b, Len(t) + r.n))
          ELSE MatchBody(cfg, T, v, Drop(b, Len(t)))
MatchFields(cfg, fs, vs, i, b) ==
  IF i > Len(fs) THEN b = <<>>
  ELSE IF ~fs[i].enc \/ Omit(cfg, fs[i].t, vs[i]) THEN MatchFields(cfg, fs, vs, i + 1, b)
  ELSE LET n == Len(Framed(cfg, fs[i].t, vs[i], fs[i].i)) IN
       /\ Len(b) >= n
       /\ MatchFramed(cfg, fs[i].t, vs[i], fs[i].i, Take(b, n))
       /\ MatchFields(cfg, fs, vs, i + 1, Drop(b, n))
\* JSON-any values: objects in any member order
MatchJ(x, b) ==
  IF x.k \notin {"arr", "obj"} THEN b = JVal(x)
  ELSE LET h == Tag(WTVarInt, 2) \o UV(JT[x.k]) \o Tag(WTSlice, 3) IN
       /\ Take(b, Len(h)) = h
       /\ IF x.k = "arr" THEN LET c == UV(Len(x.e)) IN Slice(b, Len(h), Len(c)) = c /\ MatchJItems(x.e, 1, Drop(b, Len(h) + Len(c)))
          ELSE LET c == UV(Len(x.m)) IN Slice(b, Len(h), Len(c)) = c /\ MatchJEntries(x.m, Drop(b, Len(h) + Len(c)))
MatchJItems(es, i, b) ==
  IF i > Len(es) THEN b = <<>>
  ELSE LET n == Len(JVal(es[i]))  p == UV(n) IN
       /\ Len(b) >= Len(p) + n /\ Take(b, Len(p)) = p
       /\ MatchJ(es[i], Slice(b, Len(p), n)) /\ MatchJItems(es, i + 1, Drop(b, Len(p) + n))
MatchJEntries(m, b) ==
  IF m = <<>> THEN b = <<>>
  ELSE LET r == ReadLen(b) IN
       /\ r.ok /\ r.v <= Len(b) - r.n
       /\ LET chunk == Slice(b, r.n, r.v)  rest == Drop(b, r.n + r.v) IN
          \E j \in 1..Len(m) :
             LET kb == Tag(WTLength, 1) \o UV(Len(m[j][1])) \o m[j][1] IN
             /\ Take(chunk, Len(kb)) = kb /\ MatchJ(m[j][2], Drop(chunk, Len(kb)))
             /\ MatchJEntries(Remove(m, j), rest)

EncMatches(cfg, T, v, b) == IF Omit(cfg, T, v) THEN b = <<>> ELSE MatchBody(cfg, T, v, b)
=============================================================================
