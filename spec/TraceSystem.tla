------------------------------ MODULE TraceSystem ------------------------------
(* Trace validation of PlencSystem: every recorded history (one per line) is       *)
(* replayed call by call - one TLC state per call - against the specification's    *)
(* step functions; the recorded state of ALL buffers and variables after each call *)
(* must be the state the specification reaches (C06 for the target buffer of a     *)
(* Marshal, C10 for the target of an Unmarshal, C11 for everything else, which     *)
(* must not change).  After a rejection the model re-synchronises on the recorded  *)
(* state so that the rest of the history is still examined.                        *)
EXTENDS PlencSystem, Json, TLC

CONSTANTS TraceFile, EnvFile, CatFile, OpenFindings
AllIdx == 1..Len(Cat)
EnvDef == JsonDeserialize(EnvFile)
CatDef == JsonDeserialize(CatFile)
Trace == ndJsonDeserialize(TraceFile)

VARIABLES l, k, bad
tvars == <<bufs, holds, vars, hist, l, k, bad>>

Same(i, a, b) == Eq(TypeOf(i), Norm(SysCfg(i), TypeOf(i), a, FALSE), Norm(SysCfg(i), TypeOf(i), b, FALSE))
LoggedBuf(post, b) == IF b \in DOMAIN post.bufs THEN post.bufs[b] ELSE <<>>
HasVar(post, i) == ToString(i) \in DOMAIN post.vars
LoggedVar(post, i) == post.vars[ToString(i)]

\* verdicts of one call: a set of <<property, reason>>
StepVerdicts(s, o) ==
  LET eb == StepBufs(bufs, s)
      ev == StepVars(bufs, vars, s)
      post == o.post
      tgtBuf == IF s.act \in {"newbuf", "marshal", "reuse", "scribble"} THEN {s.b} ELSE {}
      tgtVar == IF s.act \in {"unmarshal", "fresh"} THEN {s.i} ELSE {} IN
  IF o.panic THEN {<<IF s.act \in {"marshal", "reuse"} THEN "C06" ELSE IF s.act = "unmarshal" THEN "C10" ELSE "C11", "panic-in-" \o s.act>>}
  ELSE
    (IF s.act \in {"marshal", "reuse"} /\ o.err # "" THEN {<<"C06", "marshal-error">>} ELSE {})
    \cup (IF s.act \in {"marshal", "reuse"} /\ o.err = "" /\ o.ret # eb[s.b]
          THEN {<<"C06", IF Len(o.ret) >= Len(bufs[s.b]) /\ s.act = "marshal" /\ SubSeq(o.ret, 1, Len(bufs[s.b])) # bufs[s.b] THEN "prefix-lost"
                         ELSE IF s.conv = "val" THEN "bytes-by-value" ELSE "bytes">>} ELSE {})
    \cup (IF s.act = "marshal" /\ ~o.prefixIntact THEN {<<"C06", "prefix-modified">>, <<"C11", "buffer-below-length-modified">>} ELSE {})
    \cup (IF s.act \in {"marshal", "reuse"} /\ o.aliases THEN {<<"C11", "marshal-output-shares-memory-with-value">>} ELSE {})
    \cup (IF s.act = "unmarshal" /\ o.aliases THEN {<<"C11", "decoded-value-shares-memory-with-input">>} ELSE {})
    \* an error is wrong when the specification can decode what the buffer holds (it may hold the encoding of another item's value)
    \cup (IF s.act = "unmarshal" /\ o.err # "" /\ Decode(SysCfg(s.i), TypeOf(s.i), bufs[s.b], vars[s.i]).ok THEN {<<"C10", "unmarshal-error">>} ELSE {})
    \cup (IF s.act = "unmarshal" /\ o.err = "" /\ ~Decode(SysCfg(s.i), TypeOf(s.i), bufs[s.b], vars[s.i]).ok
          THEN {<<"C10", "accepted-bytes-the-model-cannot-decode">>}       \* the buffer does not hold what the specification says it holds
          ELSE IF s.act = "unmarshal" /\ o.err = "" /\ HasVar(post, s.i) /\ ~Same(s.i, LoggedVar(post, s.i), ev[s.i]) THEN {<<"C10", "decoded-value">>} ELSE {})
    \* frame conditions: nothing but the call's own target changes
    \cup {<<"C11", "buffer-changed-by-" \o s.act>> : b \in {b \in Bufs \ tgtBuf : LoggedBuf(post, b) # bufs[b]}}
    \cup {<<"C11", "variable-changed-by-" \o s.act>> : i \in {i \in CatIdx \ tgtVar : HasVar(post, i) /\ ~Same(i, LoggedVar(post, i), vars[i])}}

Resync(s, o) ==
  /\ bufs' = [b \in Bufs |-> LoggedBuf(o.post, b)]
  /\ vars' = [i \in CatIdx |-> IF HasVar(o.post, i) THEN LoggedVar(o.post, i) ELSE StepVars(bufs, vars, s)[i]]
  /\ holds' = StepHolds(bufs, holds, s)

TInit == SysInit /\ l = 1 /\ k = 0 /\ bad = 0
TNext ==
  /\ l <= Len(Trace)
  /\ LET e == Trace[l] IN
     IF e.out.kind # "ok"
     THEN /\ \A p \in {"C06", "C10", "C11"} : PrintT("VERDICT " \o ToString(e.id) \o " " \o p \o " " \o "crash-" \o e.out.kind)
          /\ l' = l + 1 /\ k' = 0 /\ bad' = bad + 1
          /\ bufs' = [b \in Bufs |-> <<>>] /\ holds' = [b \in Bufs |-> <<0, 0>>] /\ vars' = [i \in CatIdx |-> Zero(TypeOf(i))] /\ hist' = <<>>
     ELSE IF k >= Len(e.out.steps)
     THEN \* history finished (or cut short by a panic): next history starts from the initial state
          /\ l' = l + 1 /\ k' = 0 /\ bad' = bad
          /\ bufs' = [b \in Bufs |-> <<>>] /\ holds' = [b \in Bufs |-> <<0, 0>>] /\ vars' = [i \in CatIdx |-> Zero(TypeOf(i))] /\ hist' = <<>>
     ELSE LET s == e.steps[k + 1]  o == e.out.steps[k + 1]  vs == StepVerdicts(s, o) IN
          /\ \A v \in vs : PrintT("VERDICT " \o ToString(e.id) \o " " \o v[1] \o " " \o v[2] \o "@step" \o ToString(k + 1))
          /\ bad' = bad + (IF vs = {} THEN 0 ELSE 1)
          /\ Resync(s, o) /\ hist' = <<>>
          /\ k' = k + 1 /\ l' = l
Spec == TInit /\ [][TNext]_tvars
Finished == (l = Len(Trace) + 1) => PrintT(<<"JUDGED", Len(Trace), bad>>)
=============================================================================
