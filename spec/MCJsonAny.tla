------------------------------- MODULE MCJsonAny -------------------------------
(* C16 on the model: every JSON-model tree (nil, bool, int, float64, string,        *)
(* json.Number, []any, map[string]any; empty keys, empty strings, zero numbers,     *)
(* nil and empty containers anywhere) decodes back to itself up to nil / empty,     *)
(* and its encoding can be skipped exactly.  The trees are emitted at top level,    *)
(* as a struct field between two other fields, and as an unknown field.            *)
EXTENDS PlencDecode, Json, FiniteSets

CONSTANTS Leaves, Depth, Emit
MCEnv == [none |-> [k |-> "bool"]]
I(n, neg) == [neg |-> neg /\ n # 0, mag |-> NatLimbs(n)]
AllLeaves == [ nil |-> [k |-> "nil"], t |-> [k |-> "bool", v |-> TRUE], f |-> [k |-> "bool", v |-> FALSE],
               z |-> [k |-> "int", i |-> I(0, FALSE)], m1 |-> [k |-> "int", i |-> I(1, TRUE)],
               big |-> [k |-> "int", i |-> [neg |-> FALSE, mag |-> <<0, 0, 0, 0, 0, 0, 0, 0, 64>>]],
               f0 |-> [k |-> "float", f |-> <<0, 0, 0, 0, 0, 0, 0, 0>>], f15 |-> [k |-> "float", f |-> <<0, 0, 0, 0, 0, 0, 248, 63>>],
               es |-> [k |-> "str", b |-> <<>>], a |-> [k |-> "str", b |-> <<97>>], n0 |-> [k |-> "num", b |-> <<48>>],
               ctl |-> [k |-> "str", b |-> <<16, 31, 1, 34, 92, 127>>] ]        \* control bytes, a quote, a backslash: what the JSON rendering has to escape
LeafSet == {AllLeaves[x] : x \in Leaves}
Keys == {<<>>, <<97>>}
Arr(es, nil) == [k |-> "arr", nil |-> nil, e |-> es]
Obj(ms, nil) == [k |-> "obj", nil |-> nil, m |-> ms]
RECURSIVE Trees(_)
Trees(d) == IF d = 0 THEN LeafSet
            ELSE LET S == Trees(d - 1) IN
                 S \cup {Arr(<<>>, TRUE), Arr(<<>>, FALSE), Obj(<<>>, TRUE), Obj(<<>>, FALSE)}
                   \cup {Arr(<<x>>, FALSE) : x \in S} \cup {Arr(<<x, y>>, FALSE) : x \in S, y \in S}
                   \cup {Obj(<<<<k, x>>>>, FALSE) : k \in Keys, x \in S} \cup {Obj(<<<<<<>>, x>>, <<<<97>>, y>>>>, FALSE) : x \in S, y \in S}

VARIABLES st, x, pos
vars == <<st, x, pos>>
Init == st = "tree" /\ x = [k |-> "nil"] /\ pos = ""
Next == \/ st = "tree" /\ \E t \in Trees(Depth) : t.k \in {"arr", "obj"} /\ x' = t /\ st' = "pos" /\ pos' = pos
        \/ st = "pos" /\ \E p \in {"top", "field", "skipped", "skippedlast", "re0", "re1", "re4"} : pos' = p /\ st' = "done" /\ x' = x
Spec == Init /\ [][Next]_vars
Done == st = "done"

JsT == IF x.k = "obj" THEN [k |-> "jsonobj"] ELSE [k |-> "jsonarr"]
F(nm, i, t) == [i |-> i, n |-> nm, gn |-> nm, enc |-> TRUE, opt |-> "", tag |-> "", t |-> t]
St(fs) == [k |-> "struct", name |-> "", f |-> fs]
IntT == [k |-> "int", w |-> 64]
Seven == [neg |-> FALSE, mag |-> <<7>>]
Holder == St(<<F("A", 1, IntT), F("J", 2, JsT), F("Z", 3, [k |-> "string"])>>)
Lacking == St(<<F("A", 1, IntT), F("Z", 3, [k |-> "string"])>>)
HV == <<Seven, x, <<122>>>>

\* decode(encode(x)) = x up to nil / empty containers, in every position
RoundTrip == Done => LET T == Bake(IF pos = "top" THEN JsT ELSE Holder, "")
                         v == IF pos = "top" THEN x ELSE HV
                         d == Decode(Cfg0, T, Encode(Cfg0, T, v), Zero(T)) IN
                     d.ok /\ Eq(T, Norm(Cfg0, T, d.v, TRUE), Norm(Cfg0, T, v, TRUE))
\* the encoding is skippable: a reader lacking the field recovers the fields around it
Skippable == Done /\ pos = "skipped" =>
   LET d == Decode(Cfg0, Bake(Lacking, ""), Encode(Cfg0, Bake(Holder, ""), HV), Zero(Bake(Lacking, ""))) IN
   d.ok /\ d.v[1].mag = <<7>> /\ d.v[2] = <<122>>
MatcherSound == Done => EncMatches(Cfg0, Bake(Holder, ""), HV, Encode(Cfg0, Bake(Holder, ""), HV))

\* re0 / re1 / re4: the holder is decoded into a variable whose JSON field already holds an empty / shorter / longer container (C10)
Five == [k |-> "int", i |-> [neg |-> FALSE, mag |-> <<5>>]]
PriorJ == IF x.k = "arr"
            THEN (CASE pos = "re0" -> Arr(<<>>, FALSE) [] pos = "re1" -> Arr(<<Five>>, FALSE) [] OTHER -> Arr(<<Five, Five, Five, Five>>, FALSE))
            ELSE (CASE pos = "re0" -> Obj(<<>>, FALSE) [] pos = "re1" -> Obj(<<<<<<97>>, Five>>>>, FALSE)
                    [] OTHER -> Obj(<<<<<<>>, Five>>, <<<<97>>, Five>>, <<<<98>>, Five>>, <<<<99>>, Five>>>>, FALSE))
CaseJson == IF pos \in {"re0", "re1", "re4"}
              THEN ToJson([ev |-> "evolve", S |-> Holder, S2 |-> Holder, v |-> HV, prior |-> <<[neg |-> FALSE, mag |-> <<1>>], PriorJ, <<112>>>>, u |-> <<pos>>])
            ELSE IF pos = "top" THEN ToJson([ev |-> "codec", T |-> JsT, v |-> x, u |-> <<pos>>])
            ELSE IF pos = "field" THEN ToJson([ev |-> "codec", T |-> Holder, v |-> HV, u |-> <<pos>>])
            \* the skipped field is the last thing on the wire: what Skip reports ends exactly at the end of the data
            ELSE IF pos = "skippedlast"
              THEN ToJson([ev |-> "evolve", S |-> St(<<F("A", 1, IntT), F("Z", 3, [k |-> "string"]), F("J", 2, JsT)>>), S2 |-> Lacking,
                           v |-> <<Seven, <<122>>, x>>, prior |-> <<[neg |-> FALSE, mag |-> <<1>>], <<112>>>>, u |-> <<pos>>])
            ELSE ToJson([ev |-> "evolve", S |-> Holder, S2 |-> Lacking, v |-> HV, prior |-> <<[neg |-> FALSE, mag |-> <<1>>], <<112>>>>, u |-> <<pos>>])
EmitCase == (Done /\ Emit) => PrintT(<<"CASE", CaseJson>>)
=============================================================================
