------------------------------ MODULE MCJSONOut ------------------------------
EXTENDS JSONOutput, Json
CONSTANT Emit
View == <<data, depth, inField, stack, calls>>
CaseJson == ToJson([ev |-> "jsonout", calls |-> DoneCalls, docs |-> docs])
EmitCase == (Emit /\ IsDone) => PrintT(<<"CASE", CaseJson>>)
=============================================================================
