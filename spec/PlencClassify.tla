---------------------------- MODULE PlencClassify ----------------------------
(* Which type definitions plenc must accept, must reject, or may do either with  *)
(* (DESIGN.md A.5).  A definition is a raw type whose struct fields carry, next   *)
(* to the verbatim tag string the harness uses, its abstract reading `pt`:        *)
(*   [form |-> "none" | "dash" | "index" | "bad", idx, opt]                       *)
(* ("bad" = strconv.Atoi rejects the index part).  Unsupported Go kinds are       *)
(* k = "unsup".                                                                   *)
EXTENDS PlencDecode

Worst(a, b) == IF a = "reject" \/ b = "reject" THEN "reject" ELSE IF a = "either" \/ b = "either" THEN "either" ELSE "accept"
RECURSIVE WorstOf(_)
WorstOf(s) == IF s = <<>> THEN "accept" ELSE Worst(s[1], WorstOf(Tail(s)))

BasicKinds == {"bool", "int", "uint", "f32", "f64", "string"}
IsFloat(T) == T.k \in {"f32", "f64"}
\* the wire class of a raw type, as far as the nesting rules need it
RECURSIVE RawClass(_)
RawClass(T) == CASE T.k \in {"bool", "int", "uint"} -> "var"
                 [] T.k \in {"f32", "f64"} -> "fix"
                 [] T.k = "null" -> (IF T.of \in {"int", "bool"} THEN "var" ELSE IF T.of = "float" THEN "fix" ELSE "len")
                 [] T.k = "ptr" -> RawClass(T.e)
                 [] T.k = "slice" -> IF RawClass(T.e) \in {"len"} THEN "slice" ELSE IF RawClass(T.e) \in {"slice", "bad"} THEN "bad" ELSE "len"
                 [] T.k = "map" -> "slice"
                 [] T.k = "unsup" -> "bad"
                 [] T.k = "self" -> "len"
                 [] OTHER -> "len"

RECURSIVE Class(_, _), ClassField(_), DupIdx(_)
\* opt = the tag option in force at this position ("" except directly under a tagged field / through pointers)
Class(T, opt) ==
  CASE T.k = "unsup" -> "reject"
    [] T.k = "self" -> "accept"          \* a recursive reference to the definition itself
    [] T.k \in BasicKinds ->
         IF opt = "" THEN "accept"
         ELSE IF opt = "flat" /\ T.k = "int" THEN "accept"
         ELSE IF opt = "intern" THEN (IF T.k = "string" THEN "accept" ELSE "either")      \* intern is stripped before the lookup
         ELSE "reject"                                                                   \* no codec registered for (kind, option)
    [] T.k = "bytes" -> IF opt \in {"", "intern"} THEN "accept" ELSE "either"
    [] T.k = "time" -> IF opt \in {"", "intern"} THEN "accept" ELSE "either"             \* finding F17: must not silently lose data
    [] T.k = "null" -> IF opt \in {"", "intern"} THEN "accept" ELSE "either"
    [] T.k = "ptr" -> IF T.e.k \in {"ptr", "map", "null"} THEN Worst("either", Class(T.e, opt)) ELSE Class(T.e, opt)
    [] T.k = "slice" ->
         LET ec == Class(T.e, "")  rc == RawClass(T.e) IN
         IF rc \in {"slice", "bad"} THEN "reject"                           \* slices of slices of length-delimited elements, of maps
         ELSE IF T.e.k = "ptr" /\ rc = "fix" THEN "reject"                   \* slices of pointers to floats
         ELSE IF T.e.k = "ptr" /\ T.e.e.k = "slice" THEN Worst("either", ec)
         ELSE IF T.e.k = "null" THEN Worst("either", ec)
         ELSE IF opt \notin {"", "proto", "intern"} THEN Worst("either", ec) ELSE ec
    [] T.k = "map" ->
         LET kc == IF T.key.k \in {"f32", "f64", "time"} THEN "either" ELSE Class(T.key, "")
             vc == IF T.val.k = "map" THEN Worst("either", Class(T.val, "")) ELSE Class(T.val, "") IN
         Worst(Worst(kc, vc), IF opt \in {"", "proto", "intern"} THEN "accept" ELSE "either")
    [] T.k = "struct" ->
         Worst(WorstOf([j \in 1..Len(T.f) |-> ClassField(T.f[j])]), IF DupIdx(T.f) THEN "reject" ELSE "accept")
Exported(f) == f.exported
Encoded(f) == Exported(f) /\ f.pt.form = "index"
ClassField(f) ==
  IF ~Exported(f) THEN "accept"                 \* unexported fields are never looked at
  ELSE CASE f.pt.form = "dash" -> "accept"
         [] f.pt.form = "none" -> "reject"      \* an exported field without a plenc tag
         [] f.pt.form = "bad" -> "reject"       \* unparsable index
         [] f.pt.form = "index" ->
              IF f.pt.idx < 0 THEN "reject"
              ELSE Worst(IF f.pt.idx = 0 THEN "either" ELSE "accept", Class(f.t, f.pt.opt))
DupIdx(fs) == \E a, b \in 1..Len(fs) : a < b /\ Encoded(fs[a]) /\ Encoded(fs[b]) /\ fs[a].pt.idx = fs[b].pt.idx /\ fs[a].pt.idx >= 0

\* a null type has no presence representation at the top level, nor behind a pointer (double presence): the statement leaves both open
Classify(T) == IF T.k = "null" THEN Worst("either", Class(T, "")) ELSE Class(T, "")

\* the codec-level view of a definition (what PlencTypes.Bake expects): fields get enc / i / opt from the abstract tag
RECURSIVE ToCodecType(_)
ToCodecType(T) ==
  CASE T.k \in {"ptr", "slice"} -> [T EXCEPT !.e = ToCodecType(T.e)]
    [] T.k = "map" -> [T EXCEPT !.key = ToCodecType(T.key), !.val = ToCodecType(T.val)]
    [] T.k = "struct" -> [k |-> "struct", name |-> T.name,
                          f |-> [j \in 1..Len(T.f) |->
                                  [i |-> IF Encoded(T.f[j]) THEN T.f[j].pt.idx ELSE 0, n |-> T.f[j].n, gn |-> T.f[j].gn,
                                   enc |-> Encoded(T.f[j]),
                                   opt |-> IF Encoded(T.f[j]) /\ T.f[j].pt.opt \in {"flat", "intern", "proto"} THEN T.f[j].pt.opt ELSE "",
                                   tag |-> T.f[j].tag, t |-> ToCodecType(T.f[j].t)]]]
    [] OTHER -> T
=============================================================================
