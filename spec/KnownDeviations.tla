---------------------------- MODULE KnownDeviations ----------------------------
(* Open findings expressed in the specification (DESIGN.md 2.2): for each one   *)
(* the narrow class of inputs it applies to and the behaviour the code shows    *)
(* there.  A rejected event is "known:<id>" only if it is in that class AND     *)
(* shows exactly that behaviour; the orchestrator passes the open ids.          *)
EXTENDS PlencDecode

CONSTANT OpenFindings      \* set of finding ids that are open (from known_findings.jsonl)

\* does the (baked) type contain, anywhere, a sub-type satisfying P?
RECURSIVE AnySub(_, _, _)
AnySub(T0, P(_), fuel) == LET T == Resolve(T0) IN
  \/ P(T)
  \/ (fuel > 0 /\
       CASE T.k \in {"ptr", "slice"} -> AnySub(T.e, P, fuel - 1)
         [] T.k = "map" -> AnySub(T.key, P, fuel - 1) \/ AnySub(T.val, P, fuel - 1)
         [] T.k = "struct" -> \E i \in 1..Len(T.f) : T.f[i].enc /\ AnySub(T.f[i].t, P, fuel - 1)
         [] OTHER -> FALSE)

IsNullTime(T) == T.k = "null" /\ T.of = "time"
IsPtrPtr(T) == T.k = "ptr" /\ Resolve(T.e).k = "ptr"
=============================================================================
