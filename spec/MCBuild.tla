-------------------------------- MODULE MCBuild --------------------------------
(* The design check of CodecBuild: small families of related types, every          *)
(* interleaving of two or three processes asking for them on one fresh registry.   *)
EXTENDS CodecBuild
CONSTANTS p1, p2, p3
St(fs) == [kind |-> "struct", fields |-> fs, dup |-> FALSE]
Wr(e) == [kind |-> "wrap", elem |-> e, bad |-> FALSE]
MCTypeDef == [ R      |-> St(<<"sliceR", "int">>),          \* recursive through a slice
               sliceR |-> Wr("R"),
               P      |-> St(<<"int", "ptrP">>),            \* ... a pointer
               ptrP   |-> Wr("P"),
               M      |-> St(<<"mapM">>),                   \* ... a map value
               mapM   |-> [kind |-> "map", key |-> "nint", val |-> "M"],
               A      |-> St(<<"ptrB", "int">>),            \* mutually recursive pair
               B      |-> St(<<"sliceA", "int">>),
               ptrB   |-> Wr("B"),
               sliceA |-> Wr("A"),
               N      |-> St(<<"N2", "nint">>),             \* nested, not recursive, with a named basic type
               N2     |-> St(<<"nint">>),
               F      |-> St(<<"sliceF", "bad">>),          \* a recursive definition that must fail
               sliceF |-> Wr("F"),
               D      |-> [kind |-> "struct", fields |-> <<"sliceD", "int">>, dup |-> TRUE],    \* ... that fails on a duplicate index, after all fields
               sliceD |-> Wr("D"),
               G      |-> St(<<"sliceG", "ssR">>),          \* ... on a slice that has no wrapper, after its element was built
               sliceG |-> Wr("G"),
               ssR    |-> [kind |-> "wrap", elem |-> "sliceR", bad |-> TRUE],
               K      |-> St(<<"mapK", "sliceR">>),         \* struct-keyed map next to a recursive type
               mapK   |-> [kind |-> "map", key |-> "N2", val |-> "sliceR"],
               int    |-> [kind |-> "basic"],
               nint   |-> [kind |-> "named"],
               bad    |-> [kind |-> "unsupported"] ]
\* what the processes ask for, per family
W2(a, b) == [x \in {p1, p2} |-> IF x = p1 THEN a ELSE b]
W3(a, b, c) == [x \in {p1, p2, p3} |-> IF x = p1 THEN a ELSE IF x = p2 THEN b ELSE c]
WantRS == W2("R", "sliceR")
WantRR == W2("R", "R")
WantP == W2("P", "ptrP")
WantM == W2("M", "mapM")
WantAB == W2("A", "B")
WantAsB == W2("sliceA", "ptrB")
WantN == W2("N", "N2")
WantF == W2("F", "sliceF")
WantFR == W2("sliceF", "R")
WantD == W2("D", "sliceD")
WantG == W2("G", "R")
WantK == W2("K", "mapK")
WantKR == W2("mapK", "R")
Want3 == W3("R", "sliceR", "sliceR")
Want3AB == W3("A", "B", "sliceA")
=============================================================================
