-------------------------------- MODULE MCBuild --------------------------------
EXTENDS CodecBuild
CONSTANTS p1, p2, p3
\* what the processes ask for, per family
W2(a, b) == [x \in {p1, p2} |-> IF x = p1 THEN a ELSE b]
W3(a, b, c) == [x \in {p1, p2, p3} |-> IF x = p1 THEN a ELSE IF x = p2 THEN b ELSE c]
WantRS == W2("R", "sliceR")
WantRR == W2("R", "R")
WantP == W2("P", "ptrP")
WantM == W2("M", "mapM")
WantAB == W2("A", "B")
WantAsB == W2("sliceA", "ptrB")
WantN == W2("N", "N2")
WantF == W2("F", "sliceF")
WantFR == W2("sliceF", "R")
Want3 == W3("R", "sliceR", "sliceR")
Want3AB == W3("A", "B", "sliceA")
=============================================================================
