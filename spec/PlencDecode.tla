------------------------------ MODULE PlencDecode ------------------------------
(* Decode with the merge rules of DESIGN.md A.4: a function of (configuration,  *)
(* type, bytes, prior target) and nothing else.                                 *)
EXTENDS PlencJudge

Err == [ok |-> FALSE, v |-> <<>>]
Ok(v) == [ok |-> TRUE, v |-> v]
Bad == [ok |-> FALSE, x |-> <<>>]
Good(x) == [ok |-> TRUE, x |-> x]

RECURSIVE VarintItems(_)
VarintItems(b) == IF b = <<>> THEN Good(<<>>)
                  ELSE LET r == ReadVarUint(b) IN
                       IF r.n <= 0 THEN Bad
                       ELSE LET t == VarintItems(Drop(b, r.n)) IN IF ~t.ok THEN Bad ELSE Good(<<Take(b, r.n)>> \o t.x)
RECURSIVE FixedItems(_, _)
FixedItems(b, sz) == IF Len(b) < sz THEN Good(<<>>)
                     ELSE Good(<<Take(b, sz)>> \o FixedItems(Drop(b, sz), sz).x)

\* Go's key equality: +0 and -0 are one key, a NaN never equals anything (float keys are legal Go, if unwise)
IsNaN(b) == LET n == Len(b) IN
  IF n = 4 THEN (b[4] % 128 = 127) /\ (b[3] >= 128) /\ (b[1] # 0 \/ b[2] # 0 \/ b[3] # 128)
  ELSE (b[8] % 128 = 127) /\ (b[7] >= 240) /\ (b[1] # 0 \/ b[2] # 0 \/ b[3] # 0 \/ b[4] # 0 \/ b[5] # 0 \/ b[6] # 0 \/ b[7] # 240)
KeyEq(K0, a, b) == LET K == Resolve(K0) IN
  IF K.k \in {"f32", "f64"} THEN ~IsNaN(a) /\ ((IsZeroFloat(a) /\ IsZeroFloat(b)) \/ a = b) ELSE Eq(K, a, b)
FindKey(T, m, k) == LET S == {j \in 1..Len(m) : KeyEq(T.key, m[j][1], k)} IN IF S = {} THEN 0 ELSE CHOOSE j \in S : TRUE
FirstIdx(fs, idx) == LET S == {i \in 1..Len(fs) : fs[i].enc /\ fs[i].i = idx} IN IF S = {} THEN 0 ELSE CHOOSE i \in S : TRUE
LastFrame(frs, idx) == LET S == {i \in 1..Len(frs) : frs[i].idx = idx} IN
                       IF S = {} THEN 0 ELSE CHOOSE i \in S : \A j \in S : j <= i

RECURSIVE DecV(_, _, _, _), DecField(_, _, _, _, _), DecFrames(_, _, _, _), DecElems(_, _, _), DecEntries(_, _, _, _),
          DecEntry(_, _, _, _), DecJVal(_), DecJArr(_), DecJObj(_), DecJItems(_, _), DecJMembers(_, _)

\* ---- JSON-any values (C16): every value is (type under 2, value under 3), object members add the key under 1 ----
DecJVal(frs) ==      \* frs: the frames of one entry
  LET it == LastFrame(frs, 2)  iv == LastFrame(frs, 3)
      jt == IF it = 0 THEN 0 ELSE LET r == ReadLen(frs[it].pay) IN IF r.ok THEN r.v ELSE 99
      pay == IF iv = 0 THEN <<>> ELSE frs[iv].pay IN
  CASE jt = 0 -> Ok([k |-> "nil"])
    [] jt = 1 -> Ok([k |-> "str", b |-> pay])
    [] jt = 7 -> Ok([k |-> "num", b |-> pay])
    [] jt = 2 -> (LET r == ReadVarUint(pay) IN IF r.n < 0 THEN Err ELSE Ok([k |-> "int", i |-> ZagZig(r.v)]))
    [] jt = 3 -> IF pay = <<>> THEN Ok([k |-> "float", f |-> <<0, 0, 0, 0, 0, 0, 0, 0>>]) ELSE IF Len(pay) < 8 THEN Err ELSE Ok([k |-> "float", f |-> Take(pay, 8)])
    [] jt = 4 -> (LET r == ReadVarUint(pay) IN IF r.n < 0 THEN Err ELSE Ok([k |-> "bool", v |-> (r.v # <<>>)]))
    [] jt = 5 -> IF iv = 0 THEN Ok([k |-> "arr", nil |-> TRUE, e |-> <<>>]) ELSE DecJArr(pay)
    [] jt = 6 -> IF iv = 0 THEN Ok([k |-> "obj", nil |-> TRUE, m |-> <<>>]) ELSE DecJObj(pay)
    [] OTHER -> Err
DecJItems(items, i) ==
  IF i > Len(items) THEN Good(<<>>)
  ELSE LET fr == Frames(items[i]) IN
       IF ~fr.ok THEN Bad
       ELSE LET v == DecJVal(fr.x)  t == DecJItems(items, i + 1) IN IF ~v.ok \/ ~t.ok THEN Bad ELSE Good(<<v.v>> \o t.x)
DecJMembers(items, i) ==
  IF i > Len(items) THEN Good(<<>>)
  ELSE LET fr == Frames(items[i]) IN
       IF ~fr.ok THEN Bad
       ELSE LET ik == LastFrame(fr.x, 1)  key == IF ik = 0 THEN <<>> ELSE fr.x[ik].pay
                v == DecJVal(fr.x)  t == DecJMembers(items, i + 1) IN
            IF ~v.ok \/ ~t.ok THEN Bad
            ELSE Good(IF \E j \in 1..Len(t.x) : t.x[j][1] = key THEN t.x ELSE <<<<key, v.v>>>> \o t.x)    \* a later duplicate wins
DecJArr(b) == LET c == ReadLen(b) IN
  IF ~c.ok THEN Err
  ELSE LET ci == CountedItems(Drop(b, c.n), c.v) IN
       IF ~ci.ok THEN Err ELSE LET r == DecJItems(ci.x, 1) IN IF ~r.ok THEN Err ELSE Ok([k |-> "arr", nil |-> FALSE, e |-> r.x])
DecJObj(b) == LET c == ReadLen(b) IN
  IF ~c.ok THEN Err
  ELSE LET ci == CountedItems(Drop(b, c.n), c.v) IN
       IF ~ci.ok THEN Err ELSE LET r == DecJMembers(ci.x, 1) IN IF ~r.ok THEN Err ELSE Ok([k |-> "obj", nil |-> FALSE, m |-> r.x])

VarOf(b) == LET r == ReadVarUint(b) IN IF r.n < 0 THEN Bad ELSE Good(r.v)     \* empty / truncated input reads as 0
TimeOf(cfg, b) ==
  LET frs == Frames(b) IN
  IF ~frs.ok THEN Err
  ELSE LET i1 == LastFrame(frs.x, 1)  i2 == LastFrame(frs.x, 2)
           u1 == IF i1 = 0 THEN <<>> ELSE ReadVarUint(frs.x[i1].pay).v
           u2 == IF i2 = 0 THEN <<>> ELSE ReadVarUint(frs.x[i2].pay).v
           sec == IF cfg.protoTime THEN FromBits(64, u1) ELSE ZagZig(u1)
           ns  == IF cfg.protoTime THEN FromBits(32, u2) ELSE ZagZig(u2) IN
       IF ns.neg \/ ~FitsInt(ns.mag) \/ LimbsNat(ns.mag) > 999999999 THEN Err     \* outside what a time.Time holds: unspecified
       ELSE Ok([sec |-> sec, nsec |-> LimbsNat(ns.mag)])

\* b is the stand-alone body of a value of type T; prior is what the target holds
DecV(cfg, T0, b, prior) == LET T == Resolve(T0) IN
  CASE T.k = "bool" -> (LET r == VarOf(b) IN IF ~r.ok THEN Err ELSE Ok(r.x # <<>>))
    [] T.k = "uint" -> (LET r == VarOf(b) IN IF ~r.ok THEN Err ELSE Ok([neg |-> FALSE, mag |-> r.x]))
    [] T.k = "int" -> (LET r == VarOf(b) IN IF ~r.ok THEN Err
                       ELSE IF T.flat THEN Ok(FromBits(T.w, r.x)) ELSE Ok(ZagZig(r.x)))
    [] T.k = "marked" -> IF Marker(cfg, T) THEN (IF b = <<>> THEN Ok(ZeroInt) ELSE IF Len(b) < 4 THEN Err ELSE Ok(FromBits(32, FromLE32(Take(b, 4)))))
                         ELSE (LET r == VarOf(b) IN IF ~r.ok THEN Err ELSE Ok(ZagZig(r.x)))
    [] T.k = "refid" -> IF Len(b) < 4 THEN Err ELSE Ok([prior EXCEPT ![1] = FromBits(32, FromLE32(Take(b, 4)))])    \* sets the first field, leaves the rest of the target alone
    [] T.k = "f32" -> IF b = <<>> THEN Ok(Zero(T)) ELSE IF Len(b) < 4 THEN Err ELSE Ok(Take(b, 4))
    [] T.k = "f64" -> IF b = <<>> THEN Ok(Zero(T)) ELSE IF Len(b) < 8 THEN Err ELSE Ok(Take(b, 8))
    [] T.k = "string" -> Ok(b)
    [] T.k = "bytes" -> IF b = <<>> THEN Ok(Zero(T)) ELSE Ok([nil |-> FALSE, b |-> b])
    [] T.k = "time" -> IF b = <<>> THEN Ok(Zero(T)) ELSE TimeOf(cfg, b)
    [] T.k = "bqtime" ->      \* flat varint of Unix microseconds (floor division for instants before 1970)
         (LET r == VarOf(b) IN
          IF ~r.ok THEN Err
          ELSE LET us == FromBits(64, r.x)  d == DivSmall(us.mag, 1000000) IN
               IF ~us.neg THEN Ok([sec |-> [neg |-> FALSE, mag |-> d.q], nsec |-> d.r * 1000])
               ELSE IF d.r = 0 THEN Ok([sec |-> [neg |-> (d.q # <<>>), mag |-> d.q], nsec |-> 0])
               ELSE Ok([sec |-> [neg |-> TRUE, mag |-> Inc(d.q)], nsec |-> (1000000 - d.r) * 1000]))
    [] T.k = "null" -> (LET r == DecV(NullCfg(cfg), NullBase(T.of), b, Zero(NullBase(T.of))) IN
                        IF r.ok THEN Ok([valid |-> TRUE, v |-> r.v]) ELSE Err)
    [] T.k = "ptr" -> (LET r == DecV(cfg, T.e, b, IF prior.nil THEN Zero(T.e) ELSE prior.v) IN
                       IF r.ok THEN Ok([nil |-> FALSE, v |-> r.v]) ELSE Err)
    [] T.k = "struct" -> (LET frs == Frames(b) IN IF ~frs.ok THEN Err ELSE DecFrames(cfg, T, frs.x, prior))
    [] T.k = "slice" ->
         LET E == Resolve(T.e)  w == WT(cfg, E) IN
         LET items == CASE w = WTVarInt -> VarintItems(b)
                        [] w = WT64 -> FixedItems(b, 8)
                        [] w = WT32 -> FixedItems(b, 4)
                        [] OTHER -> (LET c == ReadLen(b) IN
                                     IF b = <<>> THEN Good(<<>>) ELSE IF ~c.ok THEN Bad
                                     ELSE LET ci == CountedItems(Drop(b, c.n), c.v) IN
                                          IF ci.ok THEN Good(ci.x) ELSE Bad) IN
         IF ~items.ok THEN Err
         ELSE LET es == DecElems(cfg, E, items.x) IN
              IF ~es.ok THEN Err
              ELSE Ok([nil |-> (es.x = <<>> /\ prior.nil), e |-> es.x])
    [] T.k = "map" ->
         IF b = <<>> THEN Ok(prior)
         ELSE LET c == ReadLen(b) IN
              IF ~c.ok THEN Err
              ELSE LET items == CountedItems(Drop(b, c.n), c.v) IN
                   IF ~items.ok THEN Err ELSE DecEntries(cfg, T, items.x, prior.m)
    [] T.k = "jsonobj" -> IF b = <<>> THEN Ok(prior)
                          ELSE LET r == DecJObj(b) IN
                               IF ~r.ok THEN Err
                               ELSE Ok([k |-> "obj", nil |-> FALSE,        \* entries are merged into the prior map by key
                                        m |-> SelectSeq(prior.m, LAMBDA kv : \A j \in 1..Len(r.v.m) : r.v.m[j][1] # kv[1]) \o r.v.m])
    [] T.k = "jsonarr" -> IF b = <<>> THEN Ok(Zero(T)) ELSE DecJArr(b)

\* every element starts from the zero value whatever the backing array held
DecElems(cfg, E, items) ==
  IF items = <<>> THEN Good(<<>>)
  ELSE LET r == DecV(cfg, E, items[1], Zero(E))  t == DecElems(cfg, E, Tail(items)) IN
       IF ~r.ok \/ ~t.ok THEN Bad ELSE Good(<<r.v>> \o t.x)

\* one map entry (key under 1, value under 2, either may be absent) merged into m
DecEntry(cfg, T, item, m) ==
  LET fr == Frames(item) IN
  IF ~fr.ok THEN Err
  ELSE LET frs == fr.x  ik == LastFrame(frs, 1)  iv == LastFrame(frs, 2)
           kr == IF ik = 0 THEN Ok(Zero(T.key)) ELSE DecV(cfg, T.key, frs[ik].pay, Zero(T.key)) IN
       IF ~kr.ok THEN Err
       ELSE LET j == FindKey(T, m, kr.v)
                pv == IF j = 0 THEN Zero(T.val) ELSE m[j][2]
                vr == IF iv = 0 THEN Ok(Zero(T.val)) ELSE DecField(cfg, T.val, frs[iv].wt, frs[iv].pay, pv) IN
            IF ~vr.ok THEN Err
            ELSE Ok(IF j = 0 THEN Append(m, <<kr.v, vr.v>>) ELSE [m EXCEPT ![j] = <<m[j][1], vr.v>>])    \* an existing key is kept (matters for -0 / +0 only)
DecEntries(cfg, T, items, m) ==
  IF items = <<>> THEN Ok([nil |-> FALSE, m |-> m])
  ELSE LET r == DecEntry(cfg, T, items[1], m) IN
       IF ~r.ok THEN Err ELSE DecEntries(cfg, T, Tail(items), r.v)

\* one frame (wire type wt, payload pay) applied to a field / map value holding cur
DecField(cfg, T0, wt, pay, cur) == LET T == Resolve(T0) IN
  IF T.k = "ptr"
  THEN LET r == DecField(cfg, T.e, wt, pay, IF cur.nil THEN Zero(T.e) ELSE cur.v) IN
       IF r.ok THEN Ok([nil |-> FALSE, v |-> r.v]) ELSE Err
  ELSE IF T.k = "slice" /\ WT(cfg, T.e) = WTLength /\ wt = WTLength
  THEN \* the repeated-field form (also read by a default-mode counted slice): append one element
       LET r == DecV(cfg, T.e, pay, Zero(T.e)) IN
       IF r.ok THEN Ok([nil |-> FALSE, e |-> Append(cur.e, r.v)]) ELSE Err
  ELSE IF T.k = "map" /\ T.proto
  THEN LET r == DecEntry(cfg, T, pay, cur.m) IN IF r.ok THEN Ok([nil |-> FALSE, m |-> r.v]) ELSE Err
  ELSE DecV(cfg, T, pay, cur)

\* struct frames applied in order to the current value (any order, unknown indexes skipped, later frames win)
DecFrames(cfg, T, frs, cur) ==
  IF frs = <<>> THEN Ok(cur)
  ELSE LET i == FirstIdx(T.f, frs[1].idx) IN
       IF i = 0 THEN DecFrames(cfg, T, Tail(frs), cur)
       ELSE LET r == DecField(cfg, T.f[i].t, frs[1].wt, frs[1].pay, cur[i]) IN
            IF ~r.ok THEN Err ELSE DecFrames(cfg, T, Tail(frs), [cur EXCEPT ![i] = r.v])

\* top level: Unmarshal(data, &target)
Decode(cfg, T, b, prior) == DecV(cfg, T, b, prior)
=============================================================================
