------------------------------- MODULE TraceIntern -------------------------------
(* Validates the interning part of the yield-hook logs of scheduled executions        *)
(* against the Intern model.  Goroutines decode a struct with one interned string     *)
(* field into one shared codec; the harness logs (process, point) for the points      *)
(* intern.miss (lock-free lookup failed), intern.locked (mutex taken), intern.publish *)
(* (new table built, not yet stored) and done (call returned).  Everything a process  *)
(* does between two of its entries is one segment of the code; a segment is several   *)
(* Intern actions (the lock-free part has no yield points inside), so an entry is     *)
(* translated into the list of model actions the segment must have been, run one TLC  *)
(* step each, and the control point the model arrives at is compared with the entry.  *)
(* The model says whether a lookup hits (which table is published at that moment),    *)
(* whether the lock is free, whether the re-check under the lock finds the word.      *)
EXTENDS Integers, Sequences, FiniteSets, TLC, Json

CONSTANTS TraceFile, EnvFile, OpenFindings, Env
EnvDef == JsonDeserialize(EnvFile)
Trace == ndJsonDeserialize(TraceFile)
TProcs == 0..2

InternFields(T) == {j \in 1..Len(T.f) : T.f[j].enc /\ T.f[j].opt = "intern" /\ T.f[j].t.k = "string"}
IsInternEvent(e) ==
  /\ e.ev = "sched" /\ e.out.kind = "ok"
  /\ \A i \in 1..Len(e.procs) : /\ e.procs[i].op = "unmarshal" /\ e.procs[i].T.k = "struct"
                                /\ e.procs[i].T = e.procs[1].T
                                /\ Cardinality(InternFields(e.procs[i].T)) = 1
                                /\ ~e.out.results[i].panic
WordOf(e, p) == LET T == e.procs[p + 1].T  j == CHOOSE x \in InternFields(T) : TRUE IN e.procs[p + 1].v[j]
InternLog(e) == SelectSeq(e.out.hooks, LAMBDA x : x.point \in {"intern.miss", "intern.locked", "intern.publish", "done"})
TraceWords == UNION {{WordOf(Trace[j], i - 1) : i \in 1..Len(Trace[j].procs)} : j \in {x \in 1..Len(Trace) : IsInternEvent(Trace[x])}} \cup {<<>>}

VARIABLES buf, tables, cur, strs, lock, pc, loc, got, calls,     \* Intern's state
          l, h, todo, who, expect, mism, bad
ivars == <<buf, tables, cur, strs, lock, pc, loc, got, calls>>
vars == <<ivars, l, h, todo, who, expect, mism, bad>>

IT == INSTANCE Intern WITH Procs <- TProcs, Words <- TraceWords, MaxCalls <- 1000000

PStr(p) == "p" \o ToString(p)
ModelInit == /\ buf = [p \in TProcs |-> <<>>]
             /\ tables = <<[m |-> [w \in TraceWords |-> 0]]>> /\ cur = 1 /\ strs = <<>> /\ lock = -1
             /\ pc = [p \in TProcs |-> "idle"] /\ loc = [p \in TProcs |-> [tbl |-> 0, res |-> 0, ntbl |-> 0]]
             /\ got = {} /\ calls = 0
Init == /\ l = 1 /\ h = 1 /\ todo = <<>> /\ who = 0 /\ expect = "" /\ mism = "" /\ bad = 0
        /\ ModelInit

Advance(v) ==
  /\ (v # "ok" => PrintT("VERDICT " \o ToString(Trace[l].id) \o " C07 intern-trace:" \o v))
  /\ bad' = bad + (IF v = "ok" THEN 0 ELSE 1)
  /\ l' = l + 1 /\ h' = 1 /\ todo' = <<>> /\ who' = 0 /\ expect' = "" /\ mism' = ""
  /\ buf' = [p \in TProcs |-> <<>>]
  /\ tables' = <<[m |-> [w \in TraceWords |-> 0]]>> /\ cur' = 1 /\ strs' = <<>> /\ lock' = -1
  /\ pc' = [p \in TProcs |-> "idle"] /\ loc' = [p \in TProcs |-> [tbl |-> 0, res |-> 0, ntbl |-> 0]]
  /\ got' = {} /\ calls' = 0

\* the model actions a segment ending at this log entry must consist of, and where the model must be afterwards
Own(p, as) == [j \in 1..Len(as) |-> [p |-> p, a |-> as[j]]]
\* The mutex is released in the middle of a holder's last segment (publish / re-check hit, unlock, return), so a goroutine waiting for it
\* can log intern.locked before the holder's "done" entry appears: the holder's steps up to the unlock then come first, silently.
HolderFinishes(p) ==
  IF lock = -1 \/ lock = p THEN <<>>
  ELSE CASE pc[lock] = "recheck" -> Own(lock, <<"recheck", "unlock">>)
         [] pc[lock] = "publish" -> Own(lock, <<"publish", "unlock">>)
         [] pc[lock] = "unlock" -> Own(lock, <<"unlock">>)
         [] OTHER -> <<>>
Plan(e, p, pt) ==
  LET w == WordOf(e, p) IN
  CASE pt = "intern.miss"    -> IF pc[p] = "idle" /\ w # <<>> THEN [acts |-> Own(p, <<"call", "load", "lookup">>), exp |-> "lock"] ELSE [acts |-> <<>>, exp |-> "!"]
    [] pt = "intern.locked"  -> IF pc[p] = "lock" THEN [acts |-> HolderFinishes(p) \o Own(p, <<"lock">>), exp |-> "recheck"] ELSE [acts |-> <<>>, exp |-> "!"]
    [] pt = "intern.publish" -> IF pc[p] = "recheck" THEN [acts |-> Own(p, <<"recheck">>), exp |-> "publish"] ELSE [acts |-> <<>>, exp |-> "!"]
    [] pt = "done" ->
         CASE pc[p] = "idle" /\ w = <<>> -> [acts |-> <<>>, exp |-> "idle"]                  \* an empty string is not on the wire: no Read
           [] pc[p] = "idle" /\ w # <<>> -> [acts |-> Own(p, <<"call", "load", "lookup", "ret">>), exp |-> "idle"]
           [] pc[p] = "recheck" -> [acts |-> Own(p, <<"recheck", "unlock", "ret">>), exp |-> "idle"]
           [] pc[p] = "publish" -> [acts |-> Own(p, <<"publish", "unlock", "ret">>), exp |-> "idle"]
           [] pc[p] = "ret" -> [acts |-> Own(p, <<"ret">>), exp |-> "idle"]                  \* it had already released the lock (see HolderFinishes)
           [] OTHER -> [acts |-> <<>>, exp |-> "!"]

\* Intern identifies the lock holder by process id and "free" by 0; here processes are 0..2, so free is -1
Act(a, p, w) ==
  CASE a = "call"    -> IT!Call(p, w)
    [] a = "load"    -> IT!LoadTable(p)
    [] a = "lookup"  -> IT!Lookup(p)
    [] a = "lock"    -> /\ pc[p] = "lock" /\ lock = -1 /\ lock' = p /\ pc' = [pc EXCEPT ![p] = "recheck"]
                        /\ UNCHANGED <<buf, tables, cur, strs, loc, got, calls>>
    [] a = "recheck" -> IT!Recheck(p)
    [] a = "publish" -> IT!Publish(p)
    [] a = "unlock"  -> /\ pc[p] = "unlock" /\ lock' = -1 /\ pc' = [pc EXCEPT ![p] = "ret"]
                        /\ UNCHANGED <<buf, tables, cur, strs, loc, got, calls>>
    [] a = "ret"     -> IT!Ret(p)
\* what has to hold for the action to be possible (so that an impossible one is a verdict, not a deadlock)
Can(a, p) ==
  CASE a = "call" -> pc[p] = "idle"
    [] a = "load" -> pc[p] = "load"
    [] a = "lookup" -> pc[p] = "lookup"
    [] a = "lock" -> pc[p] = "lock" /\ lock = -1
    [] a = "recheck" -> pc[p] = "recheck"
    [] a = "publish" -> pc[p] = "publish"
    [] a = "unlock" -> pc[p] = "unlock"
    [] a = "ret" -> pc[p] = "ret"

Micro(e) == LET a == Head(todo).a  q == Head(todo).p IN
  /\ UNCHANGED <<l, h, who, expect, bad>>
  /\ IF Can(a, q)
       THEN Act(a, q, WordOf(e, q)) /\ todo' = Tail(todo) /\ mism' = ""
       ELSE /\ UNCHANGED ivars /\ todo' = <<>>
            /\ mism' = PStr(q) \o ":" \o a \o "-impossible-in-the-model(pc=" \o pc[q] \o ",lock=" \o ToString(lock) \o ")@" \o ToString(h)

Entry(e) == LET log == InternLog(e)  ev == log[h]  pl == Plan(e, ev.p, ev.point) IN
  /\ UNCHANGED <<ivars, l, bad>>
  /\ IF pl.exp = "!"
       THEN /\ mism' = PStr(ev.p) \o ":" \o ev.point \o "-where-the-model-is-at-" \o pc[ev.p] \o "@" \o ToString(h)
            /\ UNCHANGED <<h, todo, who, expect>>
       ELSE /\ todo' = pl.acts /\ who' = ev.p /\ expect' = pl.exp /\ h' = h + 1 /\ mism' = ""

\* after the last action of a segment the model must be where the log entry says the code is
Arrived == IF expect # "" /\ pc[who] # expect
             THEN PStr(who) \o ":model-arrives-at-" \o pc[who] \o "-where-the-code-is-at-" \o expect \o "@" \o ToString(h - 1)
             ELSE ""

Final(e) ==
  IF \E p \in 0..(Len(e.procs) - 1) : pc[p] # "idle" THEN "log-ends-with-a-process-inside-Read"
  ELSE IF ~IT!Transparent THEN "a-returned-string-changed"
  ELSE IF ~IT!TableSound THEN "table-maps-a-word-to-another-string"
  ELSE IF lock # -1 THEN "lock-still-held"
  ELSE "ok"

Next == /\ l <= Len(Trace)
        /\ LET e == Trace[l] IN
           IF ~IsInternEvent(e) THEN Advance("ok")
           ELSE IF mism # "" THEN Advance(mism)
           ELSE IF todo # <<>> THEN Micro(e)
           ELSE IF Arrived # "" THEN Advance(Arrived)
           ELSE IF h <= Len(InternLog(e)) THEN Entry(e)
           ELSE Advance(Final(e))
Spec == Init /\ [][Next]_vars
Finished == (l = Len(Trace) + 1) => PrintT(<<"JUDGED", Len(Trace), bad>>)
=============================================================================
