-------------------------------- MODULE TraceTag --------------------------------
(* Judges "tag" events (C20): one run of the real plenctag on a rendered file.       *)
EXTENDS PlencTag, Json

CONSTANTS TraceFile, EnvFile, OpenFindings, Env
EnvDef == [none |-> 0]
Trace == ndJsonDeserialize(TraceFile)
VARIABLES l, bad
vars == <<l, bad>>

Pre(e) == [k \in 1..Len(e.structs) |-> e.structs[k].fields]
\* first struct / field where the relation fails, for the verdict message
WhereFails(pre, flags, post) ==
  IF Len(post) # Len(pre) THEN "struct-count"
  ELSE LET badk == {k \in 1..Len(pre) : ~StructOK(pre[k], post[k], flags)} IN
       IF badk = {} THEN ""
       ELSE LET k == CHOOSE x \in badk : \A y \in badk : x <= y IN
            IF Len(post[k]) # Len(pre[k]) THEN "field-count"
            ELSE LET badi == {i \in 1..Len(pre[k]) : ~FieldOK(pre[k][i], post[k][i], pre[k], post[k], i, flags)}
                     i == CHOOSE x \in badi : \A y \in badi : x <= y  f == pre[k][i]  g == post[k][i] IN
                 IF g.names # f.names \/ g.sql # f.sql \/ g.json # f.json \/ g.other # f.other THEN "other-tags-or-names-changed"
                 ELSE IF f.plenc.form # "none" /\ g.plenc # f.plenc THEN "existing-plenc-tag-changed"
                 ELSE IF f.plenc.form = "none" /\ ~Eligible(f, flags) THEN "unexported-field-tagged"
                 ELSE IF Excluded(f, flags) THEN "excluded-field-not-dash"
                 ELSE IF g.plenc.form # "index" THEN "eligible-field-without-index"
                 ELSE IF g.plenc.idx <= MaxIdx(pre[k]) THEN "index-not-above-existing-maximum"
                 ELSE IF Arity(f) > 1 THEN "one-index-for-several-fields"
                 ELSE "index-not-unique"

\* the tags that were already there are the user's responsibility: a struct that plenc rejected before the run is not the tool's fault
PreValid(s) == /\ \A i, j \in 1..Len(s) : (i # j /\ s[i].plenc.form = "index" /\ s[j].plenc.form = "index") => s[i].plenc.idx # s[j].plenc.idx
               /\ \A i \in 1..Len(s) : s[i].plenc.form = "index" => Arity(s[i]) = 1
CodecErrsOf(e) == {i \in 1..Len(e.out.codecErrs) : PreValid(Pre(e)[e.out.codecErrs[i].struct + 1])}

JudgeC20(e) ==
  LET pre == Pre(e)  o == e.out IN
  IF o.kind \in {"fatal", "timeout", "oom"} THEN "harness-crash-" \o o.kind
  ELSE IF o.crashed THEN "tool-crashed"
  ELSE IF o.exit # 0
       THEN \* an error report is acceptable when the input cannot be handled, and then nothing may have been written
            IF ~(HasMalformed(pre) \/ Unsatisfiable(pre, e.flags)) THEN "error-exit-on-valid-input"
            ELSE IF ~o.unchanged THEN "file-changed-despite-error" ELSE "ok"
  ELSE IF ~o.parsed THEN "output-does-not-parse"
  ELSE LET w == WhereFails(pre, e.flags, o.post)
           \* finding F14b: multi-name declarations that need an index get one tag; everything else in the file must still be right
           multi(k) == \E i \in 1..Len(pre[k]) : Eligible(pre[k][i], e.flags) /\ ~Excluded(pre[k][i], e.flags) /\ Arity(pre[k][i]) > 1
           f14b == /\ "F14b" \in OpenFindings /\ Len(o.post) = Len(pre)
                   /\ \A k \in 1..Len(pre) : StructOKLenient(pre[k], o.post[k], e.flags)
                   /\ \A i \in CodecErrsOf(e) : multi(e.out.codecErrs[i].struct + 1) IN
       IF w = "one-index-for-several-fields" /\ f14b /\ o.onlyTags /\ o.gofmtStable /\ (o.typechecks \/ ~o.preTypechecks) /\ o.secondExit = 0 /\ ~o.secondChanged /\ o.stdoutSame
       THEN "known:F14b"
       ELSE IF w # "" THEN w
       ELSE IF ~o.onlyTags THEN "something-other-than-tags-changed"
       ELSE IF ~o.gofmtStable THEN "not-gofmt-formatted"
       ELSE IF o.preTypechecks /\ ~o.typechecks THEN "does-not-compile"
       ELSE IF CodecErrsOf(e) # {} THEN "plenc-rejects-a-tagged-struct"
       ELSE IF o.secondExit # 0 \/ o.secondChanged THEN "second-run-changes-something"
       ELSE IF ~o.stdoutSame THEN "stdout-mode-differs-or-touches-the-file"
       ELSE "ok"

Init == l = 1 /\ bad = 0
Next == /\ l <= Len(Trace)
        /\ LET e == Trace[l]  v == JudgeC20(e) IN
           /\ (v # "ok" => PrintT("VERDICT " \o ToString(e.id) \o " C20 " \o v))
           /\ bad' = bad + (IF v = "ok" THEN 0 ELSE 1)
        /\ l' = l + 1
Spec == Init /\ [][Next]_vars
Finished == (l = Len(Trace) + 1) => PrintT(<<"JUDGED", Len(Trace), bad>>)
=============================================================================
