------------------------------- MODULE KeyPool -------------------------------
(* The key scratch pool of MapCodec.Read (plenccodec/map.go).  A decoder takes a   *)
(* scratch buffer from a sync.Pool (or a new one when the pool is empty), reads    *)
(* every entry's key into it, hands it to mapassign - which copies the key into    *)
(* the map - and gives the buffer back when the decode returns, also when it       *)
(* returns with an error.  Several goroutines decode through one codec at once.    *)
(* One action per segment between two yield hooks: kpool.get, mapassign (between   *)
(* reading a key and assigning it), kpool.put.                                     *)
(*                                                                                 *)
(* Protocol = "defer"  the code as it is: one Put, when the decode returns         *)
(*            "early"  the buffer goes back to the pool before it is used          *)
(*            "double" a failing decode puts the buffer back twice                 *)
(* The last two are there to show that the model tells them apart (TLC finds the   *)
(* stored key that is not the key that was read).                                  *)
EXTENDS Integers, Sequences, FiniteSets, TLC

CONSTANTS Procs, Keys, NBufs, MaxEntries, Protocol

Bufs == 1..NBufs
VARIABLES pool,      \* how many times each buffer is in the pool (a bag: a careless Put can put one in twice)
          made,      \* buffers created so far
          scratch,   \* the key each buffer holds
          st,        \* per process: [pc, b (its buffer), k (the key it read), n (entries done), fail (this decode will fail at its last entry)]
          stored     \* history: <<key read, key handed to mapassign>>
vars == <<pool, made, scratch, st, stored>>

Idle == [pc |-> "idle", b |-> 0, k |-> 0, n |-> 0, fail |-> FALSE]
Init == /\ pool = [b \in Bufs |-> 0] /\ made = 0 /\ scratch = [b \in Bufs |-> 0]
        /\ st = [p \in Procs |-> Idle] /\ stored = {}

PutBack(pl, b) == [pl EXCEPT ![b] = @ + 1]

\* a decode starts: Get returns a pooled buffer or makes a new one                               (ends at hook kpool.get)
Get(p, b, fails) ==
  /\ st[p].pc = "idle"
  /\ \/ pool[b] > 0 /\ pool' = (IF Protocol = "early" THEN pool ELSE [pool EXCEPT ![b] = @ - 1]) /\ made' = made
     \/ (\A x \in Bufs : pool[x] = 0) /\ b = made + 1 /\ made < NBufs /\ made' = made + 1
        /\ pool' = (IF Protocol = "early" THEN PutBack(pool, b) ELSE pool)
  /\ st' = [st EXCEPT ![p] = [pc |-> "loop", b |-> b, k |-> 0, n |-> 0, fail |-> fails]]
  /\ UNCHANGED <<scratch, stored>>
\* the next entry's key is read into the scratch buffer                                          (ends at hook mapassign)
ReadKey(p, k) ==
  /\ st[p].pc = "loop" /\ st[p].n < MaxEntries /\ ~(st[p].fail /\ st[p].n = MaxEntries - 1)
  /\ scratch' = [scratch EXCEPT ![st[p].b] = k]
  /\ st' = [st EXCEPT ![p].pc = "assign", ![p].k = k]
  /\ UNCHANGED <<pool, made, stored>>
\* mapassign copies the key out of the scratch buffer
Assign(p) ==
  /\ st[p].pc = "assign"
  /\ stored' = stored \cup {<<st[p].k, scratch[st[p].b]>>}
  /\ st' = [st EXCEPT ![p].pc = "loop", ![p].n = @ + 1]
  /\ UNCHANGED <<pool, made, scratch>>
\* the decode returns (all entries done, or an error inside the last one): the deferred Put runs   (hook kpool.put, then done)
Put(p) ==
  /\ st[p].pc = "loop" /\ (st[p].n = MaxEntries \/ (st[p].fail /\ st[p].n = MaxEntries - 1) \/ st[p].n >= 1)
  /\ pool' = (CASE Protocol = "early" -> pool
                [] Protocol = "double" /\ st[p].fail -> PutBack(PutBack(pool, st[p].b), st[p].b)
                [] OTHER -> PutBack(pool, st[p].b))
  /\ st' = [st EXCEPT ![p] = Idle]
  /\ UNCHANGED <<made, scratch, stored>>

Next == \E p \in Procs : (\E b \in Bufs, f \in BOOLEAN : Get(p, b, f)) \/ (\E k \in Keys : ReadKey(p, k)) \/ Assign(p) \/ Put(p)
Spec == Init /\ [][Next]_vars

\* what the decoders rely on: the key handed to mapassign is the key that was read
NoCrossTalk == \A x \in stored : x[1] = x[2]
\* ... because a buffer is in one place at a time: in the pool once, or with one decoder
Holders(b) == {p \in Procs : st[p].pc # "idle" /\ st[p].b = b}
Exclusive == \A b \in Bufs : pool[b] + Cardinality(Holders(b)) <= 1
=============================================================================
