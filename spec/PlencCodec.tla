------------------------------ MODULE PlencCodec ------------------------------
(* The documented encoding as a function of (configuration, type, value):      *)
(* DESIGN.md A.2, written from README, plenccore/wire.go and the golden files. *)
EXTENDS PlencTypes

IsZeroTime(v) == v.sec = ZeroSec /\ v.nsec = 0
IsZeroFloat(b) == \A i \in 1..Len(b) : (b[i] = 0 \/ (i = Len(b) /\ b[i] = 128))

\* ---- JSON-any values (C16): [k: nil|str|int|float|bool|arr|obj|num, ...] ----
JT == [nil |-> 0, str |-> 1, int |-> 2, float |-> 3, bool |-> 4, arr |-> 5, obj |-> 6, num |-> 7]

RECURSIVE Omit(_, _, _), Body(_, _, _), Framed(_, _, _, _), Fields(_, _, _, _), Items(_, _, _, _),
          Entries(_, _, _, _, _), RepItems(_, _, _, _, _), JVal(_), JItems(_, _), JEntries(_, _)

Omit(cfg, T0, v) == LET T == Resolve(T0) IN
  CASE T.k = "bool" -> ~v
    [] T.k \in {"int", "uint", "marked"} -> v.mag = <<>>
    [] T.k = "refid" -> v[1].mag = <<>>
    [] T.k \in {"f32", "f64"} -> IsZeroFloat(v)
    [] T.k = "string" -> v = <<>>
    [] T.k = "bytes" -> v.b = <<>>
    [] T.k \in {"time", "bqtime"} -> IsZeroTime(v)
    [] T.k = "null" -> ~v.valid
    [] T.k = "ptr" -> v.nil
    [] T.k = "slice" -> v.e = <<>>
    [] T.k = "map" -> v.nil
    [] T.k = "struct" -> FALSE
    [] T.k = "jsonobj" -> v.nil
    [] T.k = "jsonarr" -> v.e = <<>>

\* the null.* codecs are built on the default time codec whatever the instance options (finding F19 for C12)
NullCfg(cfg) == IF cfg.nullProto THEN cfg ELSE [cfg EXCEPT !.protoTime = FALSE]     \* nullProto: the ideal reading, used to name finding F19
\* little-endian 4 bytes of a 32-bit pattern given as limbs
LimbBits(l, from, n) ==      \* value of bits [from, from+n) of the limb sequence
  LET bit(i) == LET li == (i \div 7) + 1 IN IF li > Len(l) THEN 0 ELSE (l[li] \div (2 ^ (i % 7))) % 2
      f[j \in 0..n] == IF j = 0 THEN 0 ELSE f[j - 1] + bit(from + j - 1) * (2 ^ (j - 1)) IN f[n]
LE32(l) == <<LimbBits(l, 0, 8), LimbBits(l, 8, 8), LimbBits(l, 16, 8), LimbBits(l, 24, 8)>>
\* and back: 4 bytes to canonical limbs
FromLE32(b) == LET bit(i) == (b[(i \div 8) + 1] \div (2 ^ (i % 8))) % 2
                   limb(j) == LET f[k \in 0..7] == IF k = 0 THEN 0 ELSE f[k - 1] + (IF 7 * j + k - 1 < 32 THEN bit(7 * j + k - 1) ELSE 0) * (2 ^ (k - 1)) IN f[7] IN
               Strip([j \in 1..5 |-> limb(j - 1)])
SInt(n) == [neg |-> FALSE, mag |-> NatLimbs(n)]
TimeBody(cfg, v) ==
  IF cfg.protoTime
  THEN Tag(WTVarInt, 1) \o AppendVarUint(Bits(64, v.sec)) \o Tag(WTVarInt, 2) \o UV(v.nsec)
  ELSE Tag(WTVarInt, 1) \o AppendVarInt(v.sec) \o Tag(WTVarInt, 2) \o AppendVarInt(SInt(v.nsec))

\* Unix microseconds of a time as a signed number (BigQuery timestamp): sec * 10^6 + nsec / 1000
\* computed on limbs: only used for values the generators keep within +-2^62 / 10^6
RECURSIVE MulSmall(_, _, _)
MulSmall(l, m, c) == IF l = <<>> THEN NatLimbs(c)          \* l * m + c, m < 2^20
                     ELSE LET d == l[1] * m + c IN <<d % 128>> \o MulSmall(Tail(l), m, d \div 128)
RECURSIVE AddL(_, _, _)
AddL(a, b, c) == IF a = <<>> /\ b = <<>> THEN (IF c = 0 THEN <<>> ELSE <<c>>)
                 ELSE LET x == (IF a = <<>> THEN 0 ELSE a[1]) + (IF b = <<>> THEN 0 ELSE b[1]) + c IN
                      <<x % 128>> \o AddL(IF a = <<>> THEN <<>> ELSE Tail(a), IF b = <<>> THEN <<>> ELSE Tail(b), x \div 128)
RECURSIVE SubL(_, _, _)                                   \* a - b - c for a >= b + c
SubL(a, b, c) == IF a = <<>> THEN <<>>
                 ELSE LET x == a[1] - (IF b = <<>> THEN 0 ELSE b[1]) - c IN
                      <<(x + 128) % 128>> \o SubL(Tail(a), IF b = <<>> THEN <<>> ELSE Tail(b), IF x < 0 THEN 1 ELSE 0)
UnixMicro(v) == LET us == v.nsec \div 1000  m == Strip(MulSmall(v.sec.mag, 1000000, 0)) IN
                IF ~v.sec.neg THEN [neg |-> FALSE, mag |-> Strip(AddL(m, NatLimbs(us), 0))]
                ELSE IF us = 0 THEN [neg |-> (m # <<>>), mag |-> m]
                ELSE [neg |-> TRUE, mag |-> Strip(SubL(m, NatLimbs(us), 0))]

\* the bytes of a value standing alone (no tag, no own length)
Body(cfg, T0, v) == LET T == Resolve(T0) IN
  CASE T.k = "bool" -> IF v THEN <<1>> ELSE <<0>>
    [] T.k = "int" -> IF T.flat THEN AppendVarUint(Bits(T.w, v)) ELSE AppendVarInt(v)
    [] T.k = "uint" -> AppendVarUint(v.mag)
    \* the marker codec writes the 32-bit two's complement pattern as a little-endian fixed32, plus 7 in the first byte position
    \* being unnecessary: the wire type alone distinguishes it from the kind's default (zig-zag varint)
    [] T.k = "marked" -> IF Marker(cfg, T) THEN LE32(Bits(32, v)) ELSE AppendVarInt(v)
    [] T.k = "refid" -> LE32(Bits(32, v[1]))          \* the registered reference codec: the first field (an int32) as a fixed32
    [] T.k \in {"f32", "f64"} -> v
    [] T.k = "string" -> v
    [] T.k = "bytes" -> v.b
    [] T.k = "time" -> TimeBody(cfg, v)
    [] T.k = "bqtime" -> AppendVarUint(Bits(64, UnixMicro(v)))
    [] T.k = "null" -> Body(NullCfg(cfg), NullBase(T.of), v.v)
    [] T.k = "ptr" -> IF v.nil THEN <<>> ELSE Body(cfg, T.e, v.v)
    [] T.k = "struct" -> Fields(cfg, T.f, v, 1)
    [] T.k = "slice" ->
         IF WT(cfg, T.e) = WTLength
         THEN UV(Len(v.e)) \o Items(cfg, T.e, v.e, 1)       \* counted form (the repeated form has no stand-alone body)
         ELSE Items(cfg, T.e, v.e, 1)                       \* packed
    [] T.k = "map" -> UV(Len(v.m)) \o Entries(cfg, T, v.m, 1, <<>>)
    [] T.k = "jsonobj" -> UV(Len(v.m)) \o JEntries(v.m, 1)
    [] T.k = "jsonarr" -> UV(Len(v.e)) \o JItems(v.e, 1)

\* elements of a slice: length-prefixed when the element is length-delimited, raw otherwise;
\* a nil pointer element contributes nothing (packed) or an empty item (counted)
Items(cfg, E, es, i) ==
  IF i > Len(es) THEN <<>>
  ELSE LET b == Body(cfg, E, es[i]) IN
       (IF WT(cfg, E) = WTLength THEN UV(Len(b)) ELSE <<>>) \o b \o Items(cfg, E, es, i + 1)

EntryBody(cfg, T, kv) ==
  (IF Omit(cfg, T.key, kv[1]) THEN <<>> ELSE Framed(cfg, T.key, kv[1], 1)) \o
  (IF Omit(cfg, T.val, kv[2]) THEN <<>> ELSE Framed(cfg, T.val, kv[2], 2))
Entries(cfg, T, m, i, pre) ==       \* pre = tag bytes for the repeated form, <<>> for the counted form
  IF i > Len(m) THEN <<>>
  ELSE LET b == EntryBody(cfg, T, m[i]) IN pre \o UV(Len(b)) \o b \o Entries(cfg, T, m, i + 1, pre)

RepItems(cfg, E, es, i, idx) ==
  IF i > Len(es) THEN <<>>
  ELSE IF Resolve(E).k = "ptr" /\ es[i].nil THEN RepItems(cfg, E, es, i + 1, idx)    \* a nil element leaves no frame
  ELSE LET b == Body(cfg, E, es[i]) IN
       Tag(WTLength, idx) \o UV(Len(b)) \o b \o RepItems(cfg, E, es, i + 1, idx)

\* a non-omitted value under field index idx
Framed(cfg, T0, v, idx) == LET T == Resolve(T0) IN
  IF T.k = "ptr" THEN (IF v.nil THEN <<>> ELSE Framed(cfg, T.e, v.v, idx))     \* a nil pointer writes nothing (also an inner one: **T)
  ELSE IF T.k = "slice" /\ IsRepeated(cfg, T) THEN RepItems(cfg, T.e, v.e, 1, idx)
  ELSE IF T.k = "map" /\ T.proto THEN Entries(cfg, T, v.m, 1, Tag(WTLength, idx))
  ELSE LET w == WT(cfg, T)  b == Body(cfg, T, v) IN
       Tag(w, idx) \o (IF w = WTLength THEN UV(Len(b)) ELSE <<>>) \o b

Fields(cfg, fs, vs, i) ==
  IF i > Len(fs) THEN <<>>
  ELSE (IF ~fs[i].enc \/ Omit(cfg, fs[i].t, vs[i]) THEN <<>> ELSE Framed(cfg, fs[i].t, vs[i], fs[i].i))
       \o Fields(cfg, fs, vs, i + 1)

\* JSON-any: every value is (type under index 2, value under index 3); object members add the key under index 1
JVal(x) ==
  Tag(WTVarInt, 2) \o UV(JT[x.k]) \o
  CASE x.k = "nil"   -> <<>>
    [] x.k = "str"   -> Tag(WTLength, 3) \o UV(Len(x.b)) \o x.b
    [] x.k = "num"   -> Tag(WTLength, 3) \o UV(Len(x.b)) \o x.b
    [] x.k = "int"   -> Tag(WTVarInt, 3) \o AppendVarInt(x.i)
    [] x.k = "float" -> Tag(WT64, 3) \o x.f
    [] x.k = "bool"  -> Tag(WTVarInt, 3) \o (IF x.v THEN <<1>> ELSE <<0>>)
    [] x.k = "arr"   -> Tag(WTSlice, 3) \o UV(Len(x.e)) \o JItems(x.e, 1)
    [] x.k = "obj"   -> Tag(WTSlice, 3) \o UV(Len(x.m)) \o JEntries(x.m, 1)
JItems(es, i) == IF i > Len(es) THEN <<>>
                 ELSE LET b == JVal(es[i]) IN UV(Len(b)) \o b \o JItems(es, i + 1)
JEntries(m, i) == IF i > Len(m) THEN <<>>
                  ELSE LET b == Tag(WTLength, 1) \o UV(Len(m[i][1])) \o m[i][1] \o JVal(m[i][2]) IN
                       UV(Len(b)) \o b \o JEntries(m, i + 1)

\* what Marshal(nil, &v) returns
Encode(cfg, T, v) == IF Omit(cfg, T, v) THEN <<>> ELSE Body(cfg, T, v)
\* the size a codec must report (C05): the model's notion is simply the length
SizeOf(cfg, T, v) == Len(Body(cfg, T, v))
=============================================================================
