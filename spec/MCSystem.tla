------------------------------- MODULE MCSystem -------------------------------
(* Model checking PlencSystem over a small catalogue and emitting its histories.  *)
EXTENDS PlencSystem, Json, TLC

CONSTANT Emit
I(n) == [neg |-> FALSE, mag |-> NatLimbs(n)]
F(nm, i, opt, t) == [i |-> i, n |-> nm, gn |-> nm, enc |-> TRUE, opt |-> opt, tag |-> "", t |-> t]
\* the named type of the catalogue (as the harness's type database describes it)
MCEnv == [NUint |-> [k |-> "uint", w |-> 16], NInt |-> [k |-> "int", w |-> 32],
          RefNode |-> [k |-> "struct", name |-> "RefNode",
                       f |-> <<F("ID", 1, "", [k |-> "int", w |-> 32]), F("Name", 2, "", [k |-> "string"]),
                               F("Parent", 3, "rf", [k |-> "ptr", e |-> [k |-> "ref", n |-> "RefNode"]])>>]]
St(fs) == [k |-> "struct", name |-> "", f |-> fs]
IntT == [k |-> "int", w |-> 64]
StrT == [k |-> "string"]
BytT == [k |-> "bytes"]
Rep(n, x) == [j \in 1..n |-> x]
NilP == [nil |-> TRUE, v |-> <<>>]
\* values that encode to nothing, pointer-shaped by-value shapes, everything that can hold a reference
MCCat == <<
  [T |-> IntT, vals |-> <<I(0), I(300)>>, cfg |-> "default"],
  [T |-> StrT, vals |-> <<<<>>, <<104, 105>>>>, cfg |-> "default"],
  [T |-> BytT, vals |-> <<[nil |-> TRUE, b |-> <<>>], [nil |-> FALSE, b |-> <<1, 2, 3>>]>>, cfg |-> "default"],
  [T |-> St(<<F("A", 1, "", IntT), F("B", 2, "", StrT), F("C", 3, "", BytT)>>),
   vals |-> << <<I(0), <<>>, [nil |-> TRUE, b |-> <<>>]>>, <<I(7), <<120>>, [nil |-> FALSE, b |-> <<1, 2>>]>> >>, cfg |-> "default"],
  [T |-> St(<<F("P", 1, "", [k |-> "ptr", e |-> IntT])>>), vals |-> << <<NilP>>, <<[nil |-> FALSE, v |-> I(3)]>> >>, cfg |-> "default"],
  [T |-> St(<<F("M", 1, "", [k |-> "map", key |-> StrT, val |-> IntT])>>),
   vals |-> << <<[nil |-> TRUE, m |-> <<>>]>>, <<[nil |-> FALSE, m |-> << <<<<107>>, I(1)>> >>]>> >>, cfg |-> "default"],
  [T |-> [k |-> "map", key |-> StrT, val |-> BytT],
   vals |-> <<[nil |-> TRUE, m |-> <<>>], [nil |-> FALSE, m |-> << <<<<97>>, [nil |-> FALSE, b |-> <<5, 6>>]>> >>]>>, cfg |-> "default"],
  [T |-> [k |-> "slice", e |-> StrT], vals |-> <<[nil |-> TRUE, e |-> <<>>], [nil |-> FALSE, e |-> <<<<97>>, <<98, 99>>>>]>>, cfg |-> "default"],
  [T |-> St(<<F("S", 1, "intern", StrT), F("N", 2, "", BytT)>>),
   vals |-> << <<<<>>, [nil |-> TRUE, b |-> <<>>]>>, <<Rep(70, 105), [nil |-> FALSE, b |-> <<7>>]>> >>, cfg |-> "default"],
  [T |-> [k |-> "time"], vals |-> <<[sec |-> ZeroSec, nsec |-> 0], [sec |-> I(1000), nsec |-> 5]>>, cfg |-> "default"],
  [T |-> St(<<F("L", 1, "", [k |-> "slice", e |-> StrT])>>),
   vals |-> << <<[nil |-> TRUE, e |-> <<>>]>>, <<[nil |-> FALSE, e |-> <<<<97>>, <<>>>>]>> >>, cfg |-> "pa"],
  \* length-delimited elements of 128 bytes and more (two-byte length prefixes inside counted slices and nested structs)
  [T |-> [k |-> "slice", e |-> StrT], vals |-> <<[nil |-> TRUE, e |-> <<>>], [nil |-> FALSE, e |-> <<Rep(150, 120), <<98>>, Rep(130, 121)>>]>>, cfg |-> "default"],
  [T |-> St(<<F("A", 1, "", St(<<F("B", 1, "", StrT), F("C", 2, "", [k |-> "slice", e |-> St(<<F("D", 1, "", BytT)>>)])>>)), F("E", 2, "", IntT)>>),
   vals |-> << << <<<<>>, [nil |-> TRUE, e |-> <<>>]>>, I(0) >>,
               << <<Rep(200, 122), [nil |-> FALSE, e |-> << <<[nil |-> FALSE, b |-> Rep(140, 7)]>>, <<[nil |-> FALSE, b |-> <<1>>]>> >>]>>, I(9) >> >>, cfg |-> "default"],
  \* empty but present byte slices followed by more data: nothing decoded may keep the input as spare capacity
  [T |-> St(<<F("Chunks", 1, "", [k |-> "slice", e |-> BytT]), F("Opt", 2, "", [k |-> "ptr", e |-> BytT]), F("S", 3, "", StrT)>>),
   vals |-> << <<[nil |-> TRUE, e |-> <<>>], NilP, <<>>>>,
               <<[nil |-> FALSE, e |-> <<[nil |-> FALSE, b |-> <<1>>], [nil |-> TRUE, b |-> <<>>], [nil |-> FALSE, b |-> <<2, 3>>]>>],
                 [nil |-> FALSE, v |-> [nil |-> TRUE, b |-> <<>>]], <<116, 97, 105, 108>>>> >>, cfg |-> "default"],
  \* pointer-shaped values below the top level: Go stores struct{struct{*T}} (any depth) directly in the interface word, so Marshal by value
  \* receives the pointer itself where every other by-value call receives a pointer to a copy
  [T |-> St(<<F("L", 1, "", St(<<F("P", 1, "", [k |-> "ptr", e |-> IntT])>>))>>),
   vals |-> << << <<NilP>> >>, << <<[nil |-> FALSE, v |-> I(0)]>> >>, << <<[nil |-> FALSE, v |-> I(7)]>> >> >>, cfg |-> "default"],
  [T |-> St(<<F("L", 1, "", St(<<F("M", 1, "", [k |-> "map", key |-> StrT, val |-> IntT])>>))>>),
   vals |-> << << <<[nil |-> TRUE, m |-> <<>>]>> >>, << <<[nil |-> FALSE, m |-> << <<<<107>>, I(1)>> >>]>> >> >>, cfg |-> "default"],
  [T |-> St(<<F("A", 1, "", St(<<F("B", 1, "", St(<<F("P", 1, "", [k |-> "ptr", e |-> StrT])>>))>>))>>),
   vals |-> << << << <<NilP>> >> >>, << << <<[nil |-> FALSE, v |-> <<120, 121>>]>> >> >> >>, cfg |-> "default"],
  \* named types of narrow kinds next to other data: their codecs are chosen by kind and must touch exactly their own bytes
  [T |-> St(<<F("P", 1, "", [k |-> "ref", n |-> "NUint"]), F("Q", 2, "", [k |-> "uint", w |-> 16]), F("R", 3, "", [k |-> "ref", n |-> "NInt"]), F("S", 4, "", [k |-> "int", w |-> 8])>>),
   vals |-> << <<I(0), I(0), I(0), I(0)>>, <<I(5), I(65535), [neg |-> TRUE, mag |-> <<3>>], [neg |-> TRUE, mag |-> <<1>>]>> >>, cfg |-> "default"]
>>
\* ---- C19: interned string fields, their plain twins, null.String, two interned fields in one struct ----
Hat == <<104, 97, 116>>
CatS == <<99, 97, 116>>
Hatter == <<104, 97, 116, 116, 101, 114>>
NB(b) == IF b = <<>> THEN [nil |-> TRUE, b |-> <<>>] ELSE [nil |-> FALSE, b |-> b]
SV == <<<<>>, Hat, CatS, Hatter, <<0, 255>>, Rep(128, 113), Rep(70, 105)>>
X1 == St(<<F("S", 1, "intern", StrT), F("N", 2, "", BytT)>>)
X2 == St(<<F("S", 1, "", StrT), F("N", 2, "", BytT)>>)
XVals == [j \in 1..Len(SV) |-> <<SV[j], NB(IF j % 2 = 0 THEN <<7>> ELSE <<>>)>>]
NS(valid, b) == [valid |-> valid, v |-> b]
X3 == St(<<F("S", 1, "intern", [k |-> "null", of |-> "string"]), F("Z", 2, "", IntT)>>)
X3Vals == << <<NS(FALSE, <<>>), I(0)>>, <<NS(TRUE, <<>>), I(1)>>, <<NS(TRUE, Hat), I(0)>>, <<NS(TRUE, CatS), I(2)>> >>
X4 == St(<<F("A", 1, "intern", StrT), F("B", 2, "intern", StrT)>>)
X4Vals == << <<<<>>, <<>>>>, <<Hat, CatS>>, <<CatS, Hat>>, <<Hat, Hat>> >>
X5 == [k |-> "slice", e |-> X1]
X5Vals == << [nil |-> TRUE, e |-> <<>>], [nil |-> FALSE, e |-> <<XVals[2], XVals[3], XVals[2], XVals[1]>>] >>
\* interned fields of different kinds in one struct (string and null.String, both orders), next to a plain field
NStrT == [k |-> "null", of |-> "string"]
X6 == St(<<F("S", 1, "intern", StrT), F("N", 2, "intern", NStrT), F("Flag", 3, "", [k |-> "bool"])>>)
X7 == St(<<F("N", 1, "intern", NStrT), F("S", 2, "intern", StrT), F("Flag", 3, "", [k |-> "bool"])>>)
X6Vals == << <<<<>>, NS(FALSE, <<>>), FALSE>>, <<Hat, NS(TRUE, <<>>), FALSE>>, <<CatS, NS(TRUE, Hat), TRUE>>, <<<<>>, NS(TRUE, CatS), FALSE>> >>
X7Vals == << <<NS(FALSE, <<>>), <<>>, FALSE>>, <<NS(TRUE, <<>>), Hat, FALSE>>, <<NS(TRUE, Hat), CatS, TRUE>>, <<NS(TRUE, CatS), <<>>, FALSE>> >>
MCCat19 == << [T |-> X1, vals |-> XVals, cfg |-> "default"], [T |-> X2, vals |-> XVals, cfg |-> "default"],
              [T |-> X3, vals |-> X3Vals, cfg |-> "default"], [T |-> X4, vals |-> X4Vals, cfg |-> "default"],
              [T |-> X5, vals |-> X5Vals, cfg |-> "default"] ,
              [T |-> X6, vals |-> X6Vals, cfg |-> "default"], [T |-> X7, vals |-> X7Vals, cfg |-> "default"] >>
\* the option changes neither the encoding nor what is decoded (the model has no interning at all: that is the specification)
InternTransparent == \A j \in 1..Len(XVals) : Encode(Cfg0, Bake(X1, ""), XVals[j]) = Encode(Cfg0, Bake(X2, ""), XVals[j])
Quick19 == {1, 3, 6}
Thorough19 == {1, 2, 3, 4, 5, 6, 7}

\* ---- C17: the same types used through instances with different options and registrations ----
MkT == [k |-> "marked"]
TA == St(<<F("A", 1, "", MkT), F("P", 2, "", [k |-> "ptr", e |-> MkT]), F("S", 3, "", [k |-> "slice", e |-> MkT]),
           F("M", 4, "", [k |-> "map", key |-> MkT, val |-> MkT]), F("T", 5, "", [k |-> "time"]), F("L", 6, "", [k |-> "slice", e |-> StrT])>>)
TAz == <<I(0), NilP, [nil |-> TRUE, e |-> <<>>], [nil |-> TRUE, m |-> <<>>], [sec |-> ZeroSec, nsec |-> 0], [nil |-> TRUE, e |-> <<>>]>>
Neg(n) == [neg |-> TRUE, mag |-> NatLimbs(n)]
TAv == <<I(5), [nil |-> FALSE, v |-> Neg(3)], [nil |-> FALSE, e |-> <<I(1), I(0), Neg(2)>>], [nil |-> FALSE, m |-> << <<I(7), I(9)>> >>],
         [sec |-> I(1000), nsec |-> 5], [nil |-> FALSE, e |-> <<<<120>>, <<121>>>>]>>
TB == St(<<F("A", 1, "", MkT), F("B", 2, "mk", MkT), F("Q", 3, "mk", [k |-> "ptr", e |-> MkT])>>)
TBz == <<I(0), I(0), NilP>>
TBv == <<I(300), Neg(300), [nil |-> FALSE, v |-> I(70000)]>>
TimeT == [k |-> "time"]
TQ == St(<<F("T", 1, "flattime", TimeT), F("P", 2, "flattime", [k |-> "ptr", e |-> TimeT]), F("U", 3, "", TimeT)>>)
ZT == [sec |-> ZeroSec, nsec |-> 0]
TQz == <<ZT, NilP, ZT>>
TQv == <<[sec |-> I(1000), nsec |-> 5000], [nil |-> FALSE, v |-> [sec |-> I(86400), nsec |-> 7000]], [sec |-> I(77), nsec |-> 9]>>
SlM == [k |-> "slice", e |-> MkT]
RefT == [k |-> "ref", n |-> "RefNode"]
RefZ == <<I(0), <<>>, NilP>>
RefRoot == <<I(1), <<114, 111, 111, 116>>, NilP>>
RefChild == <<I(2), <<99>>, [nil |-> FALSE, v |-> RefRoot]>>
MpM == [k |-> "map", key |-> MkT, val |-> StrT]
MCCat17 == <<
  [T |-> TA, vals |-> <<TAz, TAv>>, cfg |-> "default"], [T |-> TA, vals |-> <<TAz, TAv>>, cfg |-> "mk"],
  [T |-> TA, vals |-> <<TAz, TAv>>, cfg |-> "pt"], [T |-> TA, vals |-> <<TAz, TAv>>, cfg |-> "pa"],
  [T |-> TA, vals |-> <<TAz, TAv>>, cfg |-> "pkg"], [T |-> TA, vals |-> <<TAz, TAv>>, cfg |-> "mktag"],
  [T |-> TB, vals |-> <<TBz, TBv>>, cfg |-> "mktag"], [T |-> TB, vals |-> <<TBz, TBv>>, cfg |-> "mkboth"],
  [T |-> MkT, vals |-> <<I(0), Neg(1)>>, cfg |-> "mk"], [T |-> MkT, vals |-> <<I(0), Neg(1)>>, cfg |-> "pkg"],
  [T |-> SlM, vals |-> <<[nil |-> TRUE, e |-> <<>>], [nil |-> FALSE, e |-> <<I(1), I(128)>>]>>, cfg |-> "mk"],
  [T |-> SlM, vals |-> <<[nil |-> TRUE, e |-> <<>>], [nil |-> FALSE, e |-> <<I(1), I(128)>>]>>, cfg |-> "default"],
  [T |-> MpM, vals |-> <<[nil |-> TRUE, m |-> <<>>], [nil |-> FALSE, m |-> << <<I(4), <<118>>>> >>]>>, cfg |-> "mkboth"],
  [T |-> MpM, vals |-> <<[nil |-> TRUE, m |-> <<>>], [nil |-> FALSE, m |-> << <<I(4), <<118>>>> >>]>>, cfg |-> "pkg"],
  \* a codec registered under a tag for a struct-kind type (time.Time under flattime), as a value and behind a pointer
  [T |-> TQ, vals |-> <<TQz, TQv>>, cfg |-> "bq"],
  \* a registration for the basic type int32 on one instance: the named type without a registration of its own falls back to it, on that instance only
  [T |-> TA, vals |-> <<TAz, TAv>>, cfg |-> "mkkind"], [T |-> MkT, vals |-> <<I(0), Neg(1)>>, cfg |-> "mkkind"],
  [T |-> SlM, vals |-> <<[nil |-> TRUE, e |-> <<>>], [nil |-> FALSE, e |-> <<I(1), I(128)>>]>>, cfg |-> "mkkind"],
  \* a codec registered for a struct type under a tag, used from inside that very type (a tagged self-reference) and from another struct
  \* pointer-shaped values (stored directly in the interface word) marshalled by value through a configured instance
  [T |-> St(<<F("P", 1, "", [k |-> "ptr", e |-> MkT])>>), vals |-> << <<NilP>>, <<[nil |-> FALSE, v |-> I(5)]>> >>, cfg |-> "mk"],
  [T |-> St(<<F("P", 1, "", [k |-> "ptr", e |-> TimeT])>>), vals |-> << <<NilP>>, <<[nil |-> FALSE, v |-> [sec |-> I(1000), nsec |-> 5]]>> >>, cfg |-> "pt"],
  [T |-> RefT, vals |-> <<RefZ, RefChild>>, cfg |-> "rf"],
  [T |-> St(<<F("Who", 1, "rf", [k |-> "ptr", e |-> RefT]), F("N", 2, "", IntT)>>), vals |-> << <<NilP, I(0)>>, <<[nil |-> FALSE, v |-> RefRoot], I(4)>> >>, cfg |-> "rf"]
>>
\* the instance configurations really differ on these items: an option or registration of one instance that leaked into
\* another would change the bytes
ScopedDiffer == /\ Encode(CfgN("default"), Bake(TA, ""), TAv) # Encode(CfgN("mk"), Bake(TA, ""), TAv)
                /\ Encode(CfgN("default"), Bake(TA, ""), TAv) # Encode(CfgN("pt"), Bake(TA, ""), TAv)
                /\ Encode(CfgN("default"), Bake(TA, ""), TAv) # Encode(CfgN("pa"), Bake(TA, ""), TAv)
                /\ Encode(CfgN("pkg"), Bake(TA, ""), TAv) = Encode(CfgN("default"), Bake(TA, ""), TAv)
                /\ Encode(CfgN("mktag"), Bake(TA, ""), TAv) = Encode(CfgN("default"), Bake(TA, ""), TAv)     \* a tagged registration does not apply to untagged positions
                /\ Encode(CfgN("mktag"), Bake(TB, ""), TBv) # Encode(CfgN("mkboth"), Bake(TB, ""), TBv)
                /\ Encode(CfgN("default"), Bake(TA, ""), TAv) # Encode(CfgN("mkkind"), Bake(TA, ""), TAv)
AllIdx == 1..Len(Cat)
QuickIdx == {1, 4, 5, 6, 9, 13, 14}
ThoroughIdx == {1, 4, 5, 6, 8, 9, 13, 14, 15, 18}
Quick17 == {1, 2, 5, 7, 16, 19, 21}
Thorough17 == {1, 2, 3, 5, 7, 9, 13, 16, 19, 21}
View == sysvars
ASSUME PrintT(<<"CATALOGUE", ToJson(Cat)>>)
\* a history is emitted when it cannot be extended (MaxSteps reached); prefixes are judged as part of it
CaseJson == ToJson([ev |-> "hist", steps |-> hist])
EmitCase == (Emit /\ Len(hist) = MaxSteps) => PrintT(<<"CASE", CaseJson>>)
=============================================================================
