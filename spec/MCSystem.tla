------------------------------- MODULE MCSystem -------------------------------
(* Model checking PlencSystem over a small catalogue and emitting its histories.  *)
EXTENDS PlencSystem, Json, TLC

CONSTANT Emit
MCEnv == [none |-> [k |-> "bool"]]
I(n) == [neg |-> FALSE, mag |-> NatLimbs(n)]
F(nm, i, opt, t) == [i |-> i, n |-> nm, gn |-> nm, enc |-> TRUE, opt |-> opt, tag |-> "", t |-> t]
St(fs) == [k |-> "struct", name |-> "", f |-> fs]
IntT == [k |-> "int", w |-> 64]
StrT == [k |-> "string"]
BytT == [k |-> "bytes"]
Rep(n, x) == [j \in 1..n |-> x]
NilP == [nil |-> TRUE, v |-> <<>>]
\* values that encode to nothing, pointer-shaped by-value shapes, everything that can hold a reference
MCCat == <<
  [T |-> IntT, vals |-> <<I(0), I(300)>>, cfg |-> "default"],
  [T |-> StrT, vals |-> <<<<>>, <<104, 105>>>>, cfg |-> "default"],
  [T |-> BytT, vals |-> <<[nil |-> TRUE, b |-> <<>>], [nil |-> FALSE, b |-> <<1, 2, 3>>]>>, cfg |-> "default"],
  [T |-> St(<<F("A", 1, "", IntT), F("B", 2, "", StrT), F("C", 3, "", BytT)>>),
   vals |-> << <<I(0), <<>>, [nil |-> TRUE, b |-> <<>>]>>, <<I(7), <<120>>, [nil |-> FALSE, b |-> <<1, 2>>]>> >>, cfg |-> "default"],
  [T |-> St(<<F("P", 1, "", [k |-> "ptr", e |-> IntT])>>), vals |-> << <<NilP>>, <<[nil |-> FALSE, v |-> I(3)]>> >>, cfg |-> "default"],
  [T |-> St(<<F("M", 1, "", [k |-> "map", key |-> StrT, val |-> IntT])>>),
   vals |-> << <<[nil |-> TRUE, m |-> <<>>]>>, <<[nil |-> FALSE, m |-> << <<<<107>>, I(1)>> >>]>> >>, cfg |-> "default"],
  [T |-> [k |-> "map", key |-> StrT, val |-> BytT],
   vals |-> <<[nil |-> TRUE, m |-> <<>>], [nil |-> FALSE, m |-> << <<<<97>>, [nil |-> FALSE, b |-> <<5, 6>>]>> >>]>>, cfg |-> "default"],
  [T |-> [k |-> "slice", e |-> StrT], vals |-> <<[nil |-> TRUE, e |-> <<>>], [nil |-> FALSE, e |-> <<<<97>>, <<98, 99>>>>]>>, cfg |-> "default"],
  [T |-> St(<<F("S", 1, "intern", StrT), F("N", 2, "", BytT)>>),
   vals |-> << <<<<>>, [nil |-> TRUE, b |-> <<>>]>>, <<Rep(70, 105), [nil |-> FALSE, b |-> <<7>>]>> >>, cfg |-> "default"],
  [T |-> [k |-> "time"], vals |-> <<[sec |-> ZeroSec, nsec |-> 0], [sec |-> I(1000), nsec |-> 5]>>, cfg |-> "default"],
  [T |-> St(<<F("L", 1, "", [k |-> "slice", e |-> StrT])>>),
   vals |-> << <<[nil |-> TRUE, e |-> <<>>]>>, <<[nil |-> FALSE, e |-> <<<<97>>, <<>>>>]>> >>, cfg |-> "pa"],
  \* length-delimited elements of 128 bytes and more (two-byte length prefixes inside counted slices and nested structs)
  [T |-> [k |-> "slice", e |-> StrT], vals |-> <<[nil |-> TRUE, e |-> <<>>], [nil |-> FALSE, e |-> <<Rep(150, 120), <<98>>, Rep(130, 121)>>]>>, cfg |-> "default"],
  [T |-> St(<<F("A", 1, "", St(<<F("B", 1, "", StrT), F("C", 2, "", [k |-> "slice", e |-> St(<<F("D", 1, "", BytT)>>)])>>)), F("E", 2, "", IntT)>>),
   vals |-> << << <<<<>>, [nil |-> TRUE, e |-> <<>>]>>, I(0) >>,
               << <<Rep(200, 122), [nil |-> FALSE, e |-> << <<[nil |-> FALSE, b |-> Rep(140, 7)]>>, <<[nil |-> FALSE, b |-> <<1>>]>> >>]>>, I(9) >> >>, cfg |-> "default"],
  \* empty but present byte slices followed by more data: nothing decoded may keep the input as spare capacity
  [T |-> St(<<F("Chunks", 1, "", [k |-> "slice", e |-> BytT]), F("Opt", 2, "", [k |-> "ptr", e |-> BytT]), F("S", 3, "", StrT)>>),
   vals |-> << <<[nil |-> TRUE, e |-> <<>>], NilP, <<>>>>,
               <<[nil |-> FALSE, e |-> <<[nil |-> FALSE, b |-> <<1>>], [nil |-> TRUE, b |-> <<>>], [nil |-> FALSE, b |-> <<2, 3>>]>>],
                 [nil |-> FALSE, v |-> [nil |-> TRUE, b |-> <<>>]], <<116, 97, 105, 108>>>> >>, cfg |-> "default"]
>>
AllIdx == 1..Len(MCCat)
QuickIdx == {1, 4, 5, 6, 9, 13, 14}
View == sysvars
ASSUME PrintT(<<"CATALOGUE", ToJson(MCCat)>>)
\* a history is emitted when it cannot be extended (MaxSteps reached); prefixes are judged as part of it
CaseJson == ToJson([ev |-> "hist", steps |-> hist])
EmitCase == (Emit /\ Len(hist) = MaxSteps) => PrintT(<<"CASE", CaseJson>>)
=============================================================================
