------------------------------ MODULE TraceHostile ------------------------------
(* Judges "hostile" events (C04): decoding arbitrary bytes must return (a value or  *)
(* an error) promptly, must not panic or fault, must not modify its input and must  *)
(* not allocate more than a fixed multiple of the input length.                     *)
EXTENDS Integers, Sequences, Json, TLC

CONSTANTS TraceFile, EnvFile, OpenFindings, Env
EnvDef == [none |-> 0]
Trace == ndJsonDeserialize(TraceFile)
VARIABLES l, bad
vars == <<l, bad>>

\* the multiple: 4 KiB per input byte above a floor of 1 MiB (honest decodes stay below 256 KiB on inputs of a few bytes)
AllocOK(e) == e.out.allocMB < 1 + (4 * Len(e.input)) \div 1024 + 1

JudgeC04(e) ==
  IF e.out.kind \in {"fatal", "timeout", "oom"} THEN e.out.kind \o "-via-" \o e.via \o ":" \o e.out.where
  ELSE IF e.out.panic THEN "panic-via-" \o e.via \o ":" \o e.out.where
  ELSE IF e.out.kind \notin {"ok", "err"} THEN "outcome-" \o e.out.kind
  ELSE IF ~e.out.inputIntact THEN "input-modified"
  ELSE IF ~AllocOK(e) THEN "allocation-blow-up-via-" \o e.via
  ELSE IF e.out.kind = "err" /\ e.out.err = "" THEN "error-without-message"
  ELSE "ok"

Init == l = 1 /\ bad = 0
Next == /\ l <= Len(Trace)
        /\ LET e == Trace[l]  v == JudgeC04(e) IN
           /\ (v # "ok" => PrintT("VERDICT " \o ToString(e.id) \o " " \o "C04" \o " " \o v))
           /\ bad' = bad + (IF v = "ok" THEN 0 ELSE 1)
        /\ l' = l + 1
Spec == Init /\ [][Next]_vars
Finished == (l = Len(Trace) + 1) => PrintT(<<"JUDGED", Len(Trace), bad>>)
=============================================================================
