----------------------------- MODULE TraceKeyPool -----------------------------
(* Validates the key-scratch part of the yield-hook logs of scheduled executions     *)
(* against KeyPool.  The log has (process, kpool.get, buffer), (process, mapassign),  *)
(* (process, kpool.put, buffer) and (process, done); buffers are numbered by the      *)
(* harness in order of first appearance.  A logged Get must be a Get the model can    *)
(* take: the buffer is in the pool (put back by its last holder) or new.  A buffer    *)
(* that the log hands to a second decoder while the first has not given it back is    *)
(* exactly what the pool must never do - whatever the code did with it in between.    *)
(* The keys themselves are not logged; the decoded maps are judged by TraceSched.     *)
EXTENDS Integers, Sequences, FiniteSets, TLC, Json

CONSTANTS TraceFile, EnvFile, OpenFindings, Env
EnvDef == JsonDeserialize(EnvFile)
Trace == ndJsonDeserialize(TraceFile)
TProcs == 0..2
TBufs == 1..8

VARIABLES pool, made, scratch, st, stored,      \* KeyPool's state
          l, h, mism, bad
kvars == <<pool, made, scratch, st, stored>>
vars == <<kvars, l, h, mism, bad>>

KP == INSTANCE KeyPool WITH Procs <- TProcs, Keys <- {0}, NBufs <- 8, MaxEntries <- 1000000, Protocol <- "defer"

PoolLog(e) == SelectSeq(e.out.hooks, LAMBDA x : x.point \in {"kpool.get", "kpool.put", "mapassign"})
IsPoolEvent(e) == e.ev = "sched" /\ e.out.kind = "ok" /\ \E j \in 1..Len(e.out.hooks) : e.out.hooks[j].point = "kpool.get"
PStr(p) == "p" \o ToString(p)

Init == /\ l = 1 /\ h = 1 /\ mism = "" /\ bad = 0 /\ KP!Init

Advance(v) ==
  /\ (v # "ok" => PrintT("VERDICT " \o ToString(Trace[l].id) \o " C07 pool-trace:" \o v))
  /\ bad' = bad + (IF v = "ok" THEN 0 ELSE 1)
  /\ l' = l + 1 /\ h' = 1 /\ mism' = ""
  /\ pool' = [b \in TBufs |-> 0] /\ made' = 0 /\ scratch' = [b \in TBufs |-> 0]
  /\ st' = [p \in TProcs |-> KP!Idle] /\ stored' = {}

Entry(e) == LET ev == PoolLog(e)[h]  p == ev.p  b == ev.arg IN
  /\ UNCHANGED <<l, bad>> /\ h' = h + 1
  /\ CASE ev.point = "kpool.get" ->
            IF b \notin TBufs THEN mism' = "more-buffers-than-the-model-has" /\ UNCHANGED kvars
            ELSE IF st[p].pc # "idle" THEN mism' = PStr(p) \o ":get-while-it-holds-a-buffer@" \o ToString(h) /\ UNCHANGED kvars
            ELSE IF pool[b] > 0
                 THEN KP!Get(p, b, FALSE) /\ mism' = ""
            ELSE IF b = made + 1 /\ \A x \in TBufs : pool[x] = 0
                 THEN KP!Get(p, b, FALSE) /\ mism' = ""
            ELSE IF b = made + 1
                 THEN \* a new buffer although the pool is not empty: sync.Pool may do that (per-P caches, GC); the model's pool keeps what it has
                      /\ made' = made + 1 /\ st' = [st EXCEPT ![p] = [pc |-> "loop", b |-> b, k |-> 0, n |-> 0, fail |-> FALSE]]
                      /\ UNCHANGED <<pool, scratch, stored>> /\ mism' = ""
            ELSE /\ mism' = PStr(p) \o ":buffer-" \o ToString(b) \o "-handed-out-while-" \o
                            (IF KP!Holders(b) # {} THEN PStr(CHOOSE q \in KP!Holders(b) : TRUE) \o "-holds-it" ELSE "it-is-not-in-the-pool") \o "@" \o ToString(h)
                 /\ UNCHANGED kvars
       [] ev.point = "mapassign" ->
            IF st[p].pc = "loop" THEN KP!ReadKey(p, 0) /\ mism' = ""      \* the key was read; the assignment follows in the next segment
            ELSE mism' = PStr(p) \o ":mapassign-without-a-buffer@" \o ToString(h) /\ UNCHANGED kvars
       [] ev.point = "kpool.put" ->
            IF st[p].pc = "assign" THEN \* the last assignment and the return are one segment
                 /\ pool' = KP!PutBack(pool, st[p].b) /\ st' = [st EXCEPT ![p] = KP!Idle]
                 /\ UNCHANGED <<made, scratch, stored>> /\ mism' = IF st[p].b = b THEN "" ELSE PStr(p) \o ":puts-back-another-buffer@" \o ToString(h)
            ELSE IF st[p].pc = "loop" THEN
                 /\ pool' = KP!PutBack(pool, st[p].b) /\ st' = [st EXCEPT ![p] = KP!Idle]
                 /\ UNCHANGED <<made, scratch, stored>> /\ mism' = IF st[p].b = b THEN "" ELSE PStr(p) \o ":puts-back-another-buffer@" \o ToString(h)
            ELSE mism' = PStr(p) \o ":put-without-a-buffer@" \o ToString(h) /\ UNCHANGED kvars

Final(e) == IF \E p \in TProcs : st[p].pc # "idle" THEN "log-ends-with-a-buffer-not-given-back"
            ELSE IF ~KP!Exclusive THEN "a-buffer-is-in-two-places"
            ELSE "ok"

NextEntryProc(e) == PoolLog(e)[h].p
Next == /\ l <= Len(Trace)
        /\ LET e == Trace[l] IN
           IF ~IsPoolEvent(e) THEN Advance("ok")
           ELSE IF mism # "" THEN Advance(mism)
           ELSE IF h <= Len(PoolLog(e)) THEN
                  \* the process of the next entry finishes its pending assignment first (same segment), unless the entry is its put
                  IF st[NextEntryProc(e)].pc = "assign" /\ PoolLog(e)[h].point = "mapassign"
                    THEN KP!Assign(NextEntryProc(e)) /\ UNCHANGED <<l, h, mism, bad>>
                    ELSE Entry(e)
           ELSE Advance(Final(e))
Spec == Init /\ [][Next]_vars
Finished == (l = Len(Trace) + 1) => PrintT(<<"JUDGED", Len(Trace), bad>>)
=============================================================================
