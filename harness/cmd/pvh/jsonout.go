package main

import (
	"bytes"
	"encoding/binary"
	"encoding/json"
	"fmt"
	"io"
	"math"
	"math/big"
	"math/rand"
	"strconv"
	"time"
	"unicode/utf8"

	"github.com/philpearl/plenc/plenccodec"

	"verifharness/internal/abs"
)

// "jsonout" events (C15): a sequence of Outputter calls is executed on the real JSONOutput, the
// result of Done() is parsed with encoding/json and the parse tree is logged in abstract form.
func init() {
	executors["jsonout"] = execJSONOut
	generators["jsonout"] = genJSONOut
}

// joCall has the same shape for every call (the specification reads records field by field).
type joCall struct {
	Op   string `json:"op"`
	B    []int  `json:"b"`    // bytes of a name / string / raw literal
	N    absNum `json:"n"`    // signed / unsigned number (limbs): i64, u64, seconds of a time
	Flag bool   `json:"flag"` // bool
	Bits []int  `json:"bits"` // float bit pattern, little endian
	Nsec int    `json:"nsec"`
	U8   bool   `json:"u8"` // the bytes are valid UTF-8 (set by the generator; not used by the harness)
}

type absNum struct {
	Neg bool  `json:"neg"`
	Mag []int `json:"mag"`
}

func (c joCall) MarshalJSON() ([]byte, error) {
	type plain joCall
	p := plain(c)
	if p.B == nil {
		p.B = []int{}
	}
	if p.Bits == nil {
		p.Bits = []int{}
	}
	if p.N.Mag == nil {
		p.N.Mag = []int{}
	}
	return json.Marshal(p)
}

func numOf(m abs.M) absNum {
	out := absNum{Neg: m["neg"].(bool), Mag: []int{}}
	for _, x := range m["mag"].([]any) {
		out.Mag = append(out.Mag, x.(int))
	}
	return out
}

func (n absNum) big() *big.Int {
	l := make([]any, len(n.Mag))
	for i, x := range n.Mag {
		l[i] = x
	}
	v := abs.FromLimbs(l)
	if n.Neg {
		v.Neg(v)
	}
	return v
}

func ints2bytes(x []int) []byte {
	b := make([]byte, len(x))
	for i, v := range x {
		b[i] = byte(v)
	}
	return b
}

func applyCalls(o *plenccodec.JSONOutput, calls []joCall) {
	for _, c := range calls {
		switch c.Op {
		case "so":
			o.StartObject()
		case "eo":
			o.EndObject()
		case "sa":
			o.StartArray()
		case "ea":
			o.EndArray()
		case "nf":
			o.NameField(string(ints2bytes(c.B)))
		case "i64":
			o.Int64(c.N.big().Int64())
		case "u64":
			o.Uint64(c.N.big().Uint64())
		case "f64":
			o.Float64(math.Float64frombits(binary.LittleEndian.Uint64(ints2bytes(c.Bits))))
		case "f32":
			o.Float32(math.Float32frombits(binary.LittleEndian.Uint32(ints2bytes(c.Bits))))
		case "str":
			o.String(string(ints2bytes(c.B)))
		case "bool":
			o.Bool(c.Flag)
		case "time":
			o.Time(time.Unix(c.N.big().Int64(), int64(c.Nsec)).UTC())
		case "raw":
			o.Raw(string(ints2bytes(c.B)))
		default:
			panic("unknown outputter call " + c.Op)
		}
	}
}

// jsonTree parses one JSON document into the abstract tree (objects as ordered key lists).
func jsonTree(data []byte) (tree any, err error) {
	dec := json.NewDecoder(bytes.NewReader(data))
	dec.UseNumber()
	t, err := readTree(dec)
	if err != nil {
		return nil, err
	}
	if _, err := dec.Token(); err != io.EOF {
		return nil, fmt.Errorf("trailing data after the document")
	}
	return t, nil
}

func readTree(dec *json.Decoder) (any, error) {
	tok, err := dec.Token()
	if err != nil {
		return nil, err
	}
	switch v := tok.(type) {
	case json.Delim:
		switch v {
		case '{':
			ms := []any{}
			for dec.More() {
				kt, err := dec.Token()
				if err != nil {
					return nil, err
				}
				k, ok := kt.(string)
				if !ok {
					return nil, fmt.Errorf("object key is not a string")
				}
				val, err := readTree(dec)
				if err != nil {
					return nil, err
				}
				ms = append(ms, []any{abs.Bytes([]byte(k)), val, k})
			}
			if _, err := dec.Token(); err != nil {
				return nil, err
			}
			return M{"k": "obj", "m": ms}, nil
		case '[':
			es := []any{}
			for dec.More() {
				val, err := readTree(dec)
				if err != nil {
					return nil, err
				}
				es = append(es, val)
			}
			if _, err := dec.Token(); err != nil {
				return nil, err
			}
			return M{"k": "arr", "e": es}, nil
		}
		return nil, fmt.Errorf("unexpected delimiter %v", v)
	case json.Number:
		s := string(v)
		f64, _ := strconv.ParseFloat(s, 64)
		f32, _ := strconv.ParseFloat(s, 32)
		var b8 [8]byte
		var b4 [4]byte
		binary.LittleEndian.PutUint64(b8[:], math.Float64bits(f64))
		binary.LittleEndian.PutUint32(b4[:], math.Float32bits(float32(f32)))
		return M{"k": "num", "t": abs.Bytes([]byte(s)), "f64": abs.Bytes(b8[:]), "f32": abs.Bytes(b4[:])}, nil
	case string:
		tm := M{"ok": false, "sec": abs.AbsInt(0), "nsec": 0}
		if t, err := time.Parse(time.RFC3339Nano, v); err == nil {
			tm = M{"ok": true, "sec": abs.AbsInt(t.Unix()), "nsec": t.Nanosecond()}
		}
		return M{"k": "str", "b": abs.Bytes([]byte(v)), "tm": tm}, nil
	case bool:
		return M{"k": "bool", "v": v}, nil
	case nil:
		return M{"k": "null"}, nil
	}
	return nil, fmt.Errorf("unexpected token %T", tok)
}

func execJSONOut(h *caseHdr, ev M, line []byte) any {
	var hd struct {
		Calls []joCall   `json:"calls"`
		Pre   [][]joCall `json:"pre"` // call sequences executed on the same outputter before, each followed by Reset (may be left unfinished)
	}
	if err := json.Unmarshal(line, &hd); err != nil {
		panic(err)
	}
	out := M{"kind": "ok", "panic": false, "where": "", "msg": "", "valid": false, "tree": M{"k": "null"}, "perr": ""}
	panicked, where, msg := guard(func() {
		var o plenccodec.JSONOutput
		for _, p := range hd.Pre {
			applyCalls(&o, p)
			o.Reset()
		}
		applyCalls(&o, hd.Calls)
		data := append([]byte{}, o.Done()...)
		out["valid"] = json.Valid(data)
		if len(data) < 300 {
			out["text"] = abs.Bytes(data)
		}
		t, err := jsonTree(data)
		if err != nil {
			out["perr"] = errStr(err)
			return
		}
		out["tree"] = t
	})
	if panicked {
		out["kind"], out["panic"], out["where"], out["msg"] = "panic", true, where, msg
	}
	return out
}

// ---- random call trees with every scalar kind ----
var joStrings = [][]byte{{}, []byte("a"), []byte(`"`), []byte(`\`), []byte("\n"), []byte("\r\t"), {0}, {0x1f}, {0x7f}, {0x80}, []byte("é"),
	[]byte("\u2028"), []byte("\u2029"), []byte(`C:\temp`), []byte(`\u0041`), []byte(`a"b\c`), []byte("</script>"), []byte("naïve ☃ 😀"), {0xff, 0xfe}, []byte("tab\there")}

func joScalar(r *rand.Rand) joCall {
	switch r.Intn(9) {
	case 0:
		vs := []int64{0, 1, -1, math.MaxInt64, math.MinInt64, 1 << 53, -(1 << 53) - 1, 1234567890123456789}
		v := vs[r.Intn(len(vs))]
		if r.Intn(2) == 0 {
			v = r.Int63() - r.Int63()
		}
		return joCall{Op: "i64", N: numOf(abs.AbsInt(v))}
	case 1:
		vs := []uint64{0, 1, math.MaxUint64, 1 << 63, 1<<63 - 1, 1<<53 + 1}
		v := vs[r.Intn(len(vs))]
		if r.Intn(2) == 0 {
			v = r.Uint64()
		}
		return joCall{Op: "u64", N: numOf(abs.AbsUint(v))}
	case 2:
		fs := []float64{0, math.Copysign(0, -1), 1, -1.5, 1e21, 1e-7, 123456789.125, math.MaxFloat64, math.SmallestNonzeroFloat64, 0.1, 1e20, 1e22}
		f := fs[r.Intn(len(fs))]
		if r.Intn(2) == 0 {
			f = r.NormFloat64() * math.Pow(10, float64(r.Intn(40)-20))
		}
		var b [8]byte
		binary.LittleEndian.PutUint64(b[:], math.Float64bits(f))
		return joCall{Op: "f64", Bits: bytes2ints(b[:])}
	case 3:
		fs := []float32{0, 1, -1.5, 3.4e38, 1e-45, 0.1, 16777217, 1e21}
		f := fs[r.Intn(len(fs))]
		if r.Intn(2) == 0 {
			f = float32(r.NormFloat64() * math.Pow(10, float64(r.Intn(30)-15)))
		}
		var b [4]byte
		binary.LittleEndian.PutUint32(b[:], math.Float32bits(f))
		return joCall{Op: "f32", Bits: bytes2ints(b[:])}
	case 4, 5:
		s := joStrings[r.Intn(len(joStrings))]
		if r.Intn(3) == 0 {
			s = append(append([]byte{}, s...), joStrings[r.Intn(len(joStrings))]...)
		}
		return joCall{Op: "str", B: bytes2ints(s), U8: utf8.Valid(s)}
	case 6:
		return joCall{Op: "bool", Flag: r.Intn(2) == 0}
	case 7:
		secs := []int64{0, 1, -1, 1700000000, 253402300799, -62135596800}
		return joCall{Op: "time", N: numOf(abs.AbsInt(secs[r.Intn(len(secs))])), Nsec: []int{0, 1, 999999999, 500000000, 120}[r.Intn(5)]}
	default:
		lits := []string{"0", "12", "-3.5e10", "1E400", "0.000000000000000000001"}
		return joCall{Op: "raw", B: bytes2ints([]byte(lits[r.Intn(len(lits))]))}
	}
}

func bytes2ints(b []byte) []int {
	out := make([]int, len(b))
	for i, c := range b {
		out[i] = int(c)
	}
	return out
}

func joTree(r *rand.Rand, depth int, calls *[]joCall) {
	if depth <= 0 || r.Intn(3) == 0 {
		*calls = append(*calls, joScalar(r))
		return
	}
	n := r.Intn(4)
	if r.Intn(2) == 0 {
		*calls = append(*calls, joCall{Op: "so"})
		for i := 0; i < n; i++ {
			s := joStrings[r.Intn(len(joStrings))]
			*calls = append(*calls, joCall{Op: "nf", B: bytes2ints(s), U8: utf8.Valid(s)})
			joTree(r, depth-1, calls)
		}
		*calls = append(*calls, joCall{Op: "eo"})
	} else {
		*calls = append(*calls, joCall{Op: "sa"})
		for i := 0; i < n; i++ {
			joTree(r, depth-1, calls)
		}
		*calls = append(*calls, joCall{Op: "ea"})
	}
}

// joDeep nests d containers (objects and arrays alternating at random) around one scalar.
func joDeep(r *rand.Rand, d int, calls *[]joCall) {
	if d == 0 {
		*calls = append(*calls, joScalar(r))
		return
	}
	if r.Intn(2) == 0 {
		s := joStrings[r.Intn(len(joStrings))]
		*calls = append(*calls, joCall{Op: "so"}, joCall{Op: "nf", B: bytes2ints(s), U8: utf8.Valid(s)})
		joDeep(r, d-1, calls)
		*calls = append(*calls, joCall{Op: "eo"})
	} else {
		*calls = append(*calls, joCall{Op: "sa"})
		joDeep(r, d-1, calls)
		*calls = append(*calls, joCall{Op: "ea"})
	}
}

func genJSONOut(r *rand.Rand, enc *json.Encoder, cfg Cfg, id int, depth int) {
	calls := []joCall{}
	if r.Intn(25) == 0 {
		// deep nesting: indentation and the container stack grow with the depth
		joDeep(r, []int{15, 16, 17, 18, 31, 32, 33, 40, 70}[r.Intn(9)], &calls)
	} else {
		joTree(r, 1+r.Intn(5), &calls)
	}
	pre := [][]joCall{}
	for i := r.Intn(3); i > 0; i-- {
		p := []joCall{}
		joTree(r, 1+r.Intn(3), &p)
		if r.Intn(2) == 0 && len(p) > 1 {
			p = p[:1+r.Intn(len(p)-1)] // abandoned mid-document
		}
		pre = append(pre, p)
	}
	if err := enc.Encode(M{"ev": "jsonout", "id": id, "cfg": cfg, "calls": calls, "pre": pre}); err != nil {
		panic(err)
	}
}
