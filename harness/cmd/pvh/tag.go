package main

import (
	"bytes"
	"encoding/json"
	"fmt"
	"go/ast"
	"go/format"
	"go/parser"
	"go/token"
	"go/types"
	"os"
	"os/exec"
	"path/filepath"
	"reflect"
	"strconv"
	"strings"

	"github.com/philpearl/plenc"
)

// "tag" events (C20): an abstract file (a list of structs) is rendered to Go source, the plenctag binary
// built from the repository is run on it, and the result is parsed back to the abstract form.
func init() { executors["tag"] = execTag }

type tagField struct {
	Names     []string `json:"names"`
	Exported  bool     `json:"exported"`
	Plenc     tagPlenc `json:"plenc"`
	SQL       string   `json:"sql"`
	JSON      string   `json:"json"`
	Other     bool     `json:"other"`
	Malformed bool     `json:"malformed"`
}
type tagPlenc struct {
	Form string `json:"form"`
	Idx  int    `json:"idx"`
}
type tagStruct struct {
	Where  string     `json:"where"` // top | generic | local | nested
	Fields []tagField `json:"fields"`
}
type tagFlags struct {
	JSON    bool `json:"json"`
	SQL     bool `json:"sql"`
	Private bool `json:"private"`
}

type EmbT struct {
	E int `plenc:"1"`
}
type EmbU struct {
	F int `plenc:"1"`
}

func renderTag(f *tagField, i int) string {
	var parts []string
	if f.Malformed {
		return "`plenc:1`" // not a well-formed key:"value" list
	}
	switch f.Plenc.Form {
	case "dash":
		parts = append(parts, `plenc:"-"`)
	case "index":
		parts = append(parts, fmt.Sprintf(`plenc:"%d"`, f.Plenc.Idx))
	}
	switch f.SQL {
	case "dash":
		parts = append(parts, `sql:"-"`)
	case "name":
		parts = append(parts, `sql:"col"`)
	}
	switch f.JSON {
	case "dash":
		parts = append(parts, `json:"-"`)
	case "name":
		parts = append(parts, fmt.Sprintf(`json:"n%d,omitempty"`, i))
	}
	if f.Other {
		parts = append(parts, `xml:"o"`)
	}
	if len(parts) == 0 {
		return ""
	}
	return "`" + strings.Join(parts, " ") + "`"
}

func renderFields(fs []tagField, k int, indent string) string {
	var b strings.Builder
	emb := 0
	for i := range fs {
		f := &fs[i]
		var decl string
		if len(f.Names) == 0 {
			decl = []string{"EmbT", "EmbU"}[emb%2]
			emb++
		} else {
			ns := make([]string, len(f.Names))
			for j, n := range f.Names {
				ns[j] = fmt.Sprintf("%s%d_%d", n, k, i)
			}
			decl = strings.Join(ns, ", ") + " int"
		}
		if t := renderTag(f, i); t != "" {
			decl += " " + t
		}
		b.WriteString(indent + decl + "\n")
	}
	return b.String()
}

func renderFile(structs []tagStruct) string {
	var b strings.Builder
	b.WriteString("// a file for plenctag\npackage p\n\ntype EmbT struct {\n\tE int `plenc:\"1\"`\n}\n\ntype EmbU struct {\n\tF int `plenc:\"1\"`\n}\n\n")
	for k, s := range structs {
		switch s.Where {
		case "generic":
			fmt.Fprintf(&b, "type S%d[T any] struct {\n%s}\n\n", k, renderFields(s.Fields, k, "\t"))
		case "local":
			fmt.Fprintf(&b, "func f%d() {\n\ttype S%d struct {\n%s\t}\n\t_ = S%d{}\n}\n\n", k, k, renderFields(s.Fields, k, "\t\t"), k)
		case "nested":
			fmt.Fprintf(&b, "type S%d struct {\n\tInner%d struct {\n%s\t} `plenc:\"1\"`\n}\n\n", k, k, renderFields(s.Fields, k, "\t\t"))
		default:
			fmt.Fprintf(&b, "// S%d is a struct\ntype S%d struct {\n%s}\n\n", k, k, renderFields(s.Fields, k, "\t"))
		}
	}
	src, err := format.Source([]byte(b.String()))
	if err != nil {
		panic("rendered source does not format: " + err.Error() + "\n" + b.String())
	}
	return string(src)
}

// parseBack returns, for every abstract struct in rendering order, its fields as found in src.
func parseBack(src []byte, structs []tagStruct) ([]any, error) {
	fset := token.NewFileSet()
	file, err := parser.ParseFile(fset, "x.go", src, parser.ParseComments)
	if err != nil {
		return nil, err
	}
	var found []*ast.StructType
	ast.Inspect(file, func(n ast.Node) bool {
		if st, ok := n.(*ast.StructType); ok {
			found = append(found, st)
		}
		return true
	})
	pos := 2 // EmbT, EmbU
	out := []any{}
	for _, s := range structs {
		if s.Where == "nested" {
			pos++ // the wrapper
		}
		if pos >= len(found) {
			return nil, fmt.Errorf("struct missing in the output")
		}
		st := found[pos]
		pos++
		fs := []any{}
		for _, f := range st.Fields.List {
			names := []any{}
			exported := true
			for _, n := range f.Names {
				base := n.Name
				if p := strings.IndexAny(base, "0123456789"); p > 0 {
					base = base[:p]
				}
				names = append(names, base)
				exported = ast.IsExported(n.Name)
			}
			g := M{"names": names, "exported": exported, "plenc": M{"form": "none", "idx": 0}, "sql": "none", "json": "none", "other": false, "malformed": false, "raw": ""}
			if f.Tag != nil {
				raw, err := strconv.Unquote(f.Tag.Value)
				g["raw"] = f.Tag.Value
				if err != nil {
					g["malformed"] = true
				} else {
					tg := reflect.StructTag(raw)
					if v, ok := tg.Lookup("plenc"); ok {
						if v == "-" {
							g["plenc"] = M{"form": "dash", "idx": 0}
						} else if n, err := strconv.Atoi(v); err == nil {
							g["plenc"] = M{"form": "index", "idx": n}
						} else {
							g["plenc"] = M{"form": "bad", "idx": 0}
						}
					} else if strings.Contains(raw, "plenc") {
						g["malformed"] = true
					}
					kind := func(key string) string {
						v, ok := tg.Lookup(key)
						if !ok {
							return "none"
						}
						if v == "-" {
							return "dash"
						}
						return "name"
					}
					g["sql"], g["json"] = kind("sql"), kind("json")
					_, g["other"] = tg.Lookup("xml")
				}
			}
			fs = append(fs, g)
		}
		out = append(out, fs)
	}
	return out, nil
}

// stripTags formats src with every struct tag removed (what must be unchanged by the tool).
func stripTags(src []byte) (string, error) {
	fset := token.NewFileSet()
	file, err := parser.ParseFile(fset, "x.go", src, parser.ParseComments)
	if err != nil {
		return "", err
	}
	ast.Inspect(file, func(n ast.Node) bool {
		if f, ok := n.(*ast.Field); ok {
			f.Tag = nil
		}
		return true
	})
	var b bytes.Buffer
	if err := format.Node(&b, fset, file); err != nil {
		return "", err
	}
	return b.String(), nil
}

func typechecks(src []byte) bool {
	fset := token.NewFileSet()
	file, err := parser.ParseFile(fset, "x.go", src, 0)
	if err != nil {
		return false
	}
	conf := types.Config{Error: func(error) {}}
	_, err = conf.Check("p", fset, []*ast.File{file}, nil)
	return err == nil
}

func runTool(bin string, fl tagFlags, write bool, path string) (exit int, crashed bool, stdout, stderr string) {
	args := []string{fmt.Sprintf("-w=%v", write), fmt.Sprintf("-json=%v", fl.JSON), fmt.Sprintf("-sql=%v", fl.SQL), fmt.Sprintf("-private=%v", fl.Private), path}
	cmd := exec.Command(bin, args...)
	var so, se bytes.Buffer
	cmd.Stdout, cmd.Stderr = &so, &se
	err := cmd.Run()
	exit = 0
	if err != nil {
		exit = -1
		if ee, ok := err.(*exec.ExitError); ok {
			exit = ee.ExitCode()
		}
	}
	crashed = strings.Contains(se.String(), "panic:") || strings.Contains(se.String(), "goroutine ") || exit == 2 && strings.Contains(se.String(), "runtime")
	return exit, crashed, so.String(), se.String()
}

func execTag(h *caseHdr, ev M, line []byte) any {
	var hd struct {
		Structs []tagStruct `json:"structs"`
		Flags   tagFlags    `json:"flags"`
	}
	if err := json.Unmarshal(line, &hd); err != nil {
		panic(err)
	}
	out := M{"kind": "ok", "panic": false, "where": "", "msg": "", "exit": 0, "crashed": false, "stderr": "", "post": []any{}, "parsed": false,
		"onlyTags": false, "gofmtStable": false, "typechecks": false, "codecErrs": []any{}, "secondExit": 0, "secondChanged": false,
		"stdoutSame": false, "unchanged": false, "preTypechecks": true}
	bin := os.Getenv("PVH_PLENCTAG")
	if bin == "" {
		out["kind"], out["msg"] = "harness-error", "PVH_PLENCTAG not set"
		return out
	}
	dir, err := os.MkdirTemp(os.Getenv("PVH_TMP"), "tag")
	if err != nil {
		panic(err)
	}
	defer os.RemoveAll(dir)
	src := renderFile(hd.Structs)
	out["preTypechecks"] = typechecks([]byte(src))
	path := filepath.Join(dir, "x.go")
	must := func(err error) {
		if err != nil {
			panic(err)
		}
	}
	must(os.WriteFile(path, []byte(src), 0o644))
	// stdout mode first (must not touch the file), then write mode, then a second run
	_, _, stdout, _ := runTool(bin, hd.Flags, false, path)
	after0, _ := os.ReadFile(path)
	exit, crashed, _, stderr := runTool(bin, hd.Flags, true, path)
	post, _ := os.ReadFile(path)
	out["exit"], out["crashed"] = exit, crashed
	if len(stderr) > 300 {
		stderr = stderr[:300]
	}
	out["stderr"] = stderr
	out["unchanged"] = string(post) == src
	out["stdoutSame"] = string(after0) == src && strings.TrimRight(stdout, "\n") == strings.TrimRight(string(post), "\n")
	if exit == 0 && !crashed {
		abstract, err := parseBack(post, hd.Structs)
		if err == nil {
			out["parsed"], out["post"] = true, abstract
		} else {
			out["msg"] = "output does not parse: " + err.Error()
		}
		a, err1 := stripTags([]byte(src))
		b, err2 := stripTags(post)
		out["onlyTags"] = err1 == nil && err2 == nil && a == b
		if f, err := format.Source(post); err == nil {
			out["gofmtStable"] = string(f) == string(post)
		}
		out["typechecks"] = typechecks(post)
		// plenc must be able to build a codec for every tagged struct
		errs := []any{}
		if out["parsed"].(bool) {
			for k, fs := range abstract {
				var sfs []reflect.StructField
				emb := 0
				ok := true
				for i, fa := range fs.([]any) {
					f := fa.(M)
					raw, _ := strconv.Unquote(f["raw"].(string))
					names := f["names"].([]any)
					if len(names) == 0 {
						t := []reflect.Type{reflect.TypeOf(EmbT{}), reflect.TypeOf(EmbU{})}[emb%2]
						emb++
						sfs = append(sfs, reflect.StructField{Name: t.Name(), Type: t, Anonymous: true, Tag: reflect.StructTag(raw)})
						continue
					}
					for j, n := range names {
						sf := reflect.StructField{Name: fmt.Sprintf("%s%d_%d_%d", n, k, i, j), Type: reflect.TypeOf(0), Tag: reflect.StructTag(raw)}
						if !ast.IsExported(sf.Name) {
							sf.PkgPath = "p"
						}
						sfs = append(sfs, sf)
					}
				}
				func() {
					defer func() {
						if x := recover(); x != nil {
							ok = false // reflect.StructOf refuses some shapes (embedded with unexported etc.): not plenc's business
						}
					}()
					t := reflect.StructOf(sfs)
					var p plenc.Plenc
					p.RegisterDefaultCodecs()
					if _, err := p.CodecForType(t); err != nil {
						errs = append(errs, M{"struct": k, "err": errStr(err)})
					}
				}()
				_ = ok
			}
		}
		out["codecErrs"] = errs
		exit2, _, _, _ := runTool(bin, hd.Flags, true, path)
		post2, _ := os.ReadFile(path)
		out["secondExit"], out["secondChanged"] = exit2, string(post2) != string(post)
	}
	return out
}
