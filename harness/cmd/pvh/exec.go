package main

import (
	"encoding/json"
	"fmt"
	"reflect"
	"runtime/debug"
	"time"
	"unicode/utf8"
	"unsafe"

	"github.com/philpearl/plenc"
	pnull "github.com/philpearl/plenc/null"
	"github.com/philpearl/plenc/plenccodec"
	"github.com/philpearl/plenc/plenccore"

	"verifharness/internal/abs"
)

type M = map[string]any

// Cfg is the instance configuration of a case.
// markerCodec is a custom codec for abs.Marked: a little-endian fixed32 (so that the wire type alone tells
// it from the kind's default zig-zag varint).
type markerCodec struct{}

func (markerCodec) Omit(ptr unsafe.Pointer) bool { return *(*int32)(ptr) == 0 }
func (markerCodec) Read(data []byte, ptr unsafe.Pointer, wt plenccore.WireType) (int, error) {
	if len(data) == 0 {
		*(*int32)(ptr) = 0
		return 0, nil
	}
	if len(data) < 4 {
		return 0, fmt.Errorf("marker: short data")
	}
	*(*int32)(ptr) = int32(uint32(data[0]) | uint32(data[1])<<8 | uint32(data[2])<<16 | uint32(data[3])<<24)
	return 4, nil
}
func (markerCodec) New() unsafe.Pointer          { return unsafe.Pointer(new(int32)) }
func (markerCodec) WireType() plenccore.WireType { return plenccore.WT32 }
func (markerCodec) Descriptor() plenccodec.Descriptor {
	return plenccodec.Descriptor{Type: plenccodec.FieldTypeInt}
}
func (markerCodec) Size(ptr unsafe.Pointer, tag []byte) int { return 4 + len(tag) }
func (markerCodec) Append(data []byte, ptr unsafe.Pointer, tag []byte) []byte {
	v := uint32(*(*int32)(ptr))
	data = append(data, tag...)
	return append(data, byte(v), byte(v>>8), byte(v>>16), byte(v>>24))
}

// refCodec is registered for (abs.RefNode, "rf"): a node stands for itself by its ID, a little-endian fixed32.
type refCodec struct{}

func (refCodec) Omit(ptr unsafe.Pointer) bool { return (*abs.RefNode)(ptr).ID == 0 }
func (refCodec) Read(data []byte, ptr unsafe.Pointer, wt plenccore.WireType) (int, error) {
	if len(data) < 4 {
		return 0, fmt.Errorf("ref: short data")
	}
	(*abs.RefNode)(ptr).ID = int32(uint32(data[0]) | uint32(data[1])<<8 | uint32(data[2])<<16 | uint32(data[3])<<24)
	return 4, nil
}
func (refCodec) New() unsafe.Pointer          { return unsafe.Pointer(new(abs.RefNode)) }
func (refCodec) WireType() plenccore.WireType { return plenccore.WT32 }
func (refCodec) Descriptor() plenccodec.Descriptor {
	return plenccodec.Descriptor{Type: plenccodec.FieldTypeInt}
}
func (refCodec) Size(ptr unsafe.Pointer, tag []byte) int { return 4 + len(tag) }
func (refCodec) Append(data []byte, ptr unsafe.Pointer, tag []byte) []byte {
	v := uint32((*abs.RefNode)(ptr).ID)
	data = append(data, tag...)
	return append(data, byte(v), byte(v>>8), byte(v>>16), byte(v>>24))
}

type Cfg struct {
	ProtoTime   bool   `json:"protoTime"`
	ProtoArrays bool   `json:"protoArrays"`
	Null        bool   `json:"null"`    // null.* codecs added
	JSONAny     bool   `json:"jsonany"` // JSONMapCodec / JSONArrayCodec registered for map[string]any / []any
	BQ          bool   `json:"bq"`      // BQTimestampCodec registered for time.Time under tag "flattime"
	Marker      string `json:"marker"`  // "", "plain", "tagged", "both": marker codec registered for abs.Marked (under tag "mk")
}

func newInstance(c Cfg) *plenc.Plenc {
	p := &plenc.Plenc{ProtoCompatibleTime: c.ProtoTime, ProtoCompatibleArrays: c.ProtoArrays}
	p.RegisterDefaultCodecs()
	if c.Null {
		pnull.AddCodecs(p)
	}
	if c.JSONAny {
		p.RegisterCodec(reflect.TypeOf(map[string]any(nil)), plenccodec.JSONMapCodec{})
		p.RegisterCodec(reflect.TypeOf([]any(nil)), plenccodec.JSONArrayCodec{})
	}
	if c.BQ {
		p.RegisterCodecWithTag(reflect.TypeOf(time.Time{}), "flattime", plenccodec.BQTimestampCodec{})
	}
	if c.Marker == "plain" || c.Marker == "both" {
		p.RegisterCodec(reflect.TypeOf(abs.Marked(0)), markerCodec{})
	}
	if c.Marker == "rf" {
		p.RegisterCodecWithTag(reflect.TypeOf(abs.RefNode{}), "rf", refCodec{})
	}
	if c.Marker == "kind" {
		p.RegisterCodec(reflect.TypeOf(int32(0)), markerCodec{})
	}
	if c.Marker == "tagged" || c.Marker == "both" {
		p.RegisterCodecWithTag(reflect.TypeOf(abs.Marked(0)), "mk", markerCodec{})
	}
	return p
}

var (
	sessID   = -1
	sessInst = map[Cfg]*plenc.Plenc{}
)

// instanceFor returns a fresh instance, or the instance shared by the case's session.
func instanceFor(h *caseHdr) *plenc.Plenc {
	if h.Sess == nil {
		return newInstance(h.Cfg)
	}
	if *h.Sess != sessID {
		sessID, sessInst = *h.Sess, map[Cfg]*plenc.Plenc{}
	}
	p, ok := sessInst[h.Cfg]
	if !ok {
		p = newInstance(h.Cfg)
		sessInst[h.Cfg] = p
	}
	return p
}

type caseHdr struct {
	Sess *int            `json:"sess"` // cases of one session share a Plenc instance (history); nil = fresh instance
	Ev   string          `json:"ev"`
	ID   int             `json:"id"`
	Cfg  Cfg             `json:"cfg"`
	T    *abs.TD         `json:"T"`
	V    json.RawMessage `json:"v"`
}

func decodeAny(raw json.RawMessage) any {
	var x any
	if len(raw) == 0 {
		return nil
	}
	if err := json.Unmarshal(raw, &x); err != nil {
		panic(err)
	}
	return x
}

// guard runs f and reports a recovered panic with the innermost plenc frame.
func guard(f func()) (panicked bool, where, msg string) {
	defer func() {
		if x := recover(); x != nil {
			panicked = true
			msg = fmt.Sprint(x)
			if len(msg) > 200 {
				msg = msg[:200]
			}
			where = plencFrame(string(debug.Stack()))
		}
	}()
	f()
	return
}

func errStr(e error) string {
	if e == nil {
		return ""
	}
	s := e.Error()
	if s == "" {
		s = "(empty error message)"
	}
	if len(s) > 300 {
		s = s[:300]
	}
	return s
}

// execLine executes one case and returns the completed event as JSON.
func execLine(line []byte) []byte {
	var h caseHdr
	if err := json.Unmarshal(line, &h); err != nil {
		panic(fmt.Sprintf("bad case line: %v", err))
	}
	var ev M
	json.Unmarshal(line, &ev)
	switch h.Ev {
	case "codec":
		ev["out"] = execCodec(&h, ev)
	default:
		if f, ok := executors[h.Ev]; ok {
			ev["out"] = f(&h, ev, line)
		} else {
			panic("unknown event " + h.Ev)
		}
	}
	b, err := json.Marshal(ev)
	if err != nil {
		panic(err)
	}
	return b
}

var executors = map[string]func(h *caseHdr, ev M, line []byte) any{}

// crashOut is the `out` of a case whose worker died (same shape as the normal one where the
// specification looks at it).
func crashOut(ev map[string]any, kind, where, msg string, ms int) any {
	return M{"kind": kind, "panic": true, "where": where, "msg": msg, "ms": ms,
		"merr": "", "uerr": "", "bytes": []any{}, "back": []any{}, "backUTC": true, "laws": []any{}, "desc": M{"have": false}, "cross": M{"have": false}, "sane": true,
		"json": []any{}, "jsonable": M{"finite": true, "times": true, "utf8": true}}
}

// ptrFor returns the pointer a codec's writer methods expect for the value held in pv (a pointer
// to T): the value's address, or for maps the map pointer itself (marshal.go's convention).
func wptr(pv reflect.Value) unsafe.Pointer {
	p := unsafe.Pointer(pv.Pointer())
	if pv.Type().Elem().Kind() == reflect.Map {
		return *(*unsafe.Pointer)(p)
	}
	return p
}

func allUTC(v reflect.Value) bool {
	switch v.Kind() {
	case reflect.Struct:
		if v.Type() == reflect.TypeOf(time.Time{}) {
			tm := v.Interface().(time.Time)
			return tm.Location() == time.UTC
		}
		for i := 0; i < v.NumField(); i++ {
			if !allUTC(abs.Fld(v, i)) {
				return false
			}
		}
	case reflect.Ptr:
		if !v.IsNil() {
			return allUTC(v.Elem())
		}
	case reflect.Slice:
		for i := 0; i < v.Len(); i++ {
			if !allUTC(v.Index(i)) {
				return false
			}
		}
	case reflect.Map:
		it := v.MapRange()
		for it.Next() {
			e := reflect.New(v.Type().Elem()).Elem()
			e.Set(it.Value())
			if !allUTC(e) {
				return false
			}
		}
	}
	return true
}

// law records the codec's own Size / Append / Read results for one value (C05).
func law(c plenccodec.Codec, pv reflect.Value, path string) M {
	l := M{"path": path, "ok": true}
	panicked, where, msg := guard(func() {
		ptr := wptr(pv)
		wt := c.WireType()
		l["wt"] = int(wt)
		omit := c.Omit(ptr)
		l["omit"] = omit
		if omit {
			return
		}
		tag1 := plenccore.AppendTag(nil, wt, 1)
		tag2 := plenccore.AppendTag(nil, wt, 300)
		l["sizeU"] = c.Size(ptr, nil)
		appU := c.Append(nil, ptr, nil)
		l["appU"] = abs.Bytes(appU)
		l["tag1"] = abs.Bytes(tag1)
		l["sizeT1"] = c.Size(ptr, tag1)
		l["appT1"] = abs.Bytes(c.Append(nil, ptr, tag1))
		l["tag2"] = abs.Bytes(tag2)
		l["sizeT2"] = c.Size(ptr, tag2)
		l["appT2"] = abs.Bytes(c.Append(nil, ptr, tag2))
		// prefix preservation of Append
		pre := []byte{0xAA, 0xBB, 0xCC}
		withPre := c.Append(append(make([]byte, 0, 3), pre...), ptr, tag1)
		l["prefixKept"] = len(withPre) >= 3 && withPre[0] == 0xAA && withPre[1] == 0xBB && withPre[2] == 0xCC
		// Read consumes exactly the body. The repeated-field codecs have no stand-alone body (their
		// Read takes one element / entry), so there is nothing to read back for them.
		l["readN"], l["readErr"] = -1, ""
		if !isRepeatedCodec(c) {
			back := reflect.New(pv.Type().Elem())
			n, err := c.Read(appU, unsafe.Pointer(back.Pointer()), wt)
			l["readN"] = n
			l["readErr"] = errStr(err)
		}
	})
	if panicked {
		l["ok"] = false
		l["where"] = where
		l["msg"] = msg
	}
	return l
}

var ftNames = map[plenccodec.FieldType]string{
	plenccodec.FieldTypeInt: "Int", plenccodec.FieldTypeUint: "Uint", plenccodec.FieldTypeFloat32: "Float32",
	plenccodec.FieldTypeFloat64: "Float64", plenccodec.FieldTypeString: "String", plenccodec.FieldTypeSlice: "Slice",
	plenccodec.FieldTypeStruct: "Struct", plenccodec.FieldTypeBool: "Bool", plenccodec.FieldTypeTime: "Time",
	plenccodec.FieldTypeJSONObject: "JSONObject", plenccodec.FieldTypeJSONArray: "JSONArray", plenccodec.FieldTypeFlatInt: "FlatInt",
}
var ltNames = map[plenccodec.LogicalType]string{
	plenccodec.LogicalTypeNone: "None", plenccodec.LogicalTypeTimestamp: "Timestamp", plenccodec.LogicalTypeDate: "Date",
	plenccodec.LogicalTypeTime: "Time", plenccodec.LogicalTypeMap: "Map", plenccodec.LogicalTypeMapEntry: "MapEntry",
}

// projDesc maps a Descriptor to the abstract form compared by the specification.
func projDesc(d *plenccodec.Descriptor, depth int) M {
	ft, ok := ftNames[d.Type]
	if !ok {
		ft = fmt.Sprintf("FieldType(%d)", int(d.Type))
	}
	lt, ok := ltNames[d.LogicalType]
	if !ok {
		lt = fmt.Sprintf("LogicalType(%d)", int(d.LogicalType))
	}
	es := []any{}
	if depth > 0 {
		for i := range d.Elements {
			es = append(es, projDesc(&d.Elements[i], depth-1))
		}
	}
	return M{"index": d.Index, "name": d.Name, "type": ft, "tname": d.TypeName, "explicit": d.ExplicitPresence, "logical": lt, "elems": es}
}

// hasRecursion reports whether the abstract type reaches one of the recursive static families (whose
// by-value Descriptor is infinite: Descriptor() never returns, finding F16).
func hasRecursion(t *abs.TD) bool {
	switch t.K {
	case "ref":
		switch t.N {
		case "RecS", "RecP", "RecM", "MutA", "MutB", "RecPS":
			return true
		}
		return hasRecursion(abs.Env()[t.N])
	case "ptr", "slice":
		return hasRecursion(t.E)
	case "map":
		return hasRecursion(t.Key) || hasRecursion(t.Val)
	case "struct":
		for i := range t.F {
			if hasRecursion(t.F[i].T) {
				return true
			}
		}
	}
	return false
}

// renderJSON walks data with the descriptor (three ways of obtaining it) and the JSON outputter.
func renderJSON(p *plenc.Plenc, d *plenccodec.Descriptor, data []byte) []any {
	res := []any{}
	one := func(via string, get func() (*plenccodec.Descriptor, error)) {
		r := M{"via": via, "panic": false, "where": "", "msg": "", "err": "", "valid": false, "perr": "", "tree": M{"k": "null"}}
		panicked, where, msg := guard(func() {
			dd, err := get()
			if err != nil {
				r["err"] = "descriptor round trip: " + errStr(err)
				return
			}
			var jo plenccodec.JSONOutput
			if err := dd.Read(&jo, data); err != nil {
				r["err"] = errStr(err)
				return
			}
			text := jo.Done()
			r["valid"] = json.Valid(text)
			t, err := jsonTree(text)
			if err != nil {
				r["perr"] = errStr(err)
				return
			}
			r["tree"] = t
		})
		if panicked {
			r["panic"], r["where"], r["msg"] = true, where, msg
		}
		res = append(res, r)
	}
	one("direct", func() (*plenccodec.Descriptor, error) { return d, nil })
	one("plenc", func() (*plenccodec.Descriptor, error) {
		b, err := p.Marshal(nil, d)
		if err != nil {
			return nil, err
		}
		var d2 plenccodec.Descriptor
		return &d2, p.Unmarshal(b, &d2)
	})
	one("json", func() (*plenccodec.Descriptor, error) {
		b, err := json.Marshal(d)
		if err != nil {
			return nil, err
		}
		var d2 plenccodec.Descriptor
		return &d2, json.Unmarshal(b, &d2)
	})
	return res
}

// jsonable reports the preconditions of C13 on a value: floats finite, times in years 1..9999, strings and
// byte slices valid UTF-8 (otherwise only validity of the document is required).
func jsonable(v reflect.Value) M {
	finite, timesOK, utf8OK := true, true, true
	var walk func(v reflect.Value)
	walk = func(v reflect.Value) {
		switch v.Kind() {
		case reflect.Float32, reflect.Float64:
			f := v.Float()
			if f != f || f > 1.7976931348623157e308 || f < -1.7976931348623157e308 {
				finite = false
			}
		case reflect.String:
			if !utf8.ValidString(v.String()) {
				utf8OK = false
			}
		case reflect.Slice:
			if v.Type().Elem().Kind() == reflect.Uint8 {
				if !utf8.Valid(v.Bytes()) {
					utf8OK = false
				}
				return
			}
			for i := 0; i < v.Len(); i++ {
				walk(v.Index(i))
			}
		case reflect.Ptr:
			if !v.IsNil() {
				walk(v.Elem())
			}
		case reflect.Map:
			it := v.MapRange()
			for it.Next() {
				k := reflect.New(v.Type().Key()).Elem()
				k.Set(it.Key())
				e := reflect.New(v.Type().Elem()).Elem()
				e.Set(it.Value())
				walk(k)
				walk(e)
			}
		case reflect.Struct:
			if v.Type() == reflect.TypeOf(time.Time{}) {
				tm := v.Interface().(time.Time)
				if y := tm.UTC().Year(); y < 1 || y > 9999 {
					timesOK = false
				}
				return
			}
			for i := 0; i < v.NumField(); i++ {
				walk(abs.Fld(v, i))
			}
		}
	}
	walk(v)
	return M{"finite": finite, "times": timesOK, "utf8": utf8OK}
}

func isRepeatedCodec(c plenccodec.Codec) bool {
	for {
		switch x := c.(type) {
		case plenccodec.PointerWrapper:
			c = x.Underlying
		case plenccodec.ProtoSliceWrapper, plenccodec.ProtoMapCodec:
			return true
		default:
			return false
		}
	}
}

func execCodec(h *caseHdr, ev M) any {
	out := M{"kind": "ok", "panic": false, "where": "", "msg": "", "merr": "", "uerr": "", "bytes": []any{}, "back": []any{},
		"backUTC": true, "laws": []any{}, "desc": M{"have": false}, "cross": M{"have": false}, "sane": true,
		"json": []any{}, "jsonable": M{"finite": true, "times": true, "utf8": true},
		"byval": M{"have": false}, "aliasIn": false, "aliasOut": false}
	var gt reflect.Type
	var in reflect.Value
	p := instanceFor(h)
	panicked, where, msg := guard(func() {
		gt = abs.GoType(h.T)
		in = reflect.New(gt)
		abs.Build(h.T, decodeAny(h.V), in.Elem())
	})
	if panicked {
		// a defect of the harness or of the case generator, never of plenc: reported as broken machinery
		out["kind"], out["msg"] = "harness-error", "harness failed to build the case: "+msg
		return out
	}
	panicked, where, msg = guard(func() {
		data, merr := p.Marshal(nil, in.Interface())
		out["merr"] = errStr(merr)
		out["bytes"] = abs.Bytes(data)
		if merr != nil {
			return
		}
		back := reflect.New(gt)
		uerr := p.Unmarshal(data, back.Interface())
		out["uerr"] = errStr(uerr)
		abs.Corrupt = false
		out["back"] = abs.Project(h.T, back.Elem())
		out["sane"] = !abs.Corrupt
		out["backUTC"] = allUTC(back.Elem())
		// C11, observed directly: nothing reachable from the decoded value (spare capacity included) lies in the input,
		// and the bytes Marshal returned do not lie in the value
		out["aliasIn"] = overlaps(back.Elem(), data)
		out["aliasOut"] = overlaps(in.Elem(), data)
		// the value given to Marshal must be unchanged (C11 observes this on every case)
		out["srcAfter"] = abs.Project(h.T, in.Elem())
	})
	if panicked {
		out["kind"] = "panic"
		out["panic"], out["where"], out["msg"] = true, where, msg
		return out
	}
	// the other calling convention: the value itself instead of a pointer to it (C01, C06)
	byval := M{"have": true, "panic": false, "where": "", "merr": "", "uerr": "", "bytes": []any{}, "back": []any{}}
	panicked, where, msg = guard(func() {
		data, merr := p.Marshal(nil, in.Elem().Interface())
		byval["merr"] = errStr(merr)
		byval["bytes"] = abs.Bytes(data)
		if merr != nil {
			return
		}
		back := reflect.New(gt)
		byval["uerr"] = errStr(p.Unmarshal(data, back.Interface()))
		byval["back"] = abs.Project(h.T, back.Elem())
	})
	if panicked {
		byval["panic"], byval["where"] = true, where
	}
	out["byval"] = byval
	// C12: data written in the repeated-field form is decoded by an instance without ProtoCompatibleArrays
	out["cross"] = M{"have": false}
	if h.Cfg.ProtoArrays && out["merr"] == "" {
		c2 := h.Cfg
		c2.ProtoArrays = false
		p2 := newInstance(c2)
		cross := M{"have": true, "panic": false, "uerr": "", "back": []any{}}
		panicked, where, msg = guard(func() {
			back := reflect.New(gt)
			uerr := p2.Unmarshal(abs.ToBytes(out["bytes"]), back.Interface())
			cross["uerr"] = errStr(uerr)
			cross["back"] = abs.Project(h.T, back.Elem())
		})
		if panicked {
			cross["panic"], cross["where"], cross["msg"] = true, where, msg
		}
		out["cross"] = cross
	}
	// codec laws for the top-level codec and, one level down, for every struct field's codec
	laws := []any{}
	panicked, where, msg = guard(func() {
		c, err := p.CodecForType(gt)
		if err != nil {
			return
		}
		laws = append(laws, law(c, in, ""))
		if h.T.K == "struct" {
			for i := range h.T.F {
				f := &h.T.F[i]
				if !f.Enc {
					continue
				}
				opt := f.Opt
				ft := abs.GoType(f.T)
				fc, err := p.CodecForTypeWithTag(ft, opt)
				if err != nil {
					continue
				}
				fv := reflect.New(ft)
				fv.Elem().Set(abs.Fld(in.Elem(), i))
				l := law(fc, fv, fmt.Sprintf("f%d", i+1))
				l["fi"] = i + 1
				laws = append(laws, l)
			}
		}
	})
	if panicked {
		laws = append(laws, M{"path": "?", "ok": false, "where": where, "msg": msg})
	}
	out["laws"] = laws
	// the descriptor of the type (C14, C09); recursive types are asked for theirs in the "desc" event only
	out["desc"] = M{"have": false}
	out["json"] = []any{}
	if !hasRecursion(h.T) {
		var d plenccodec.Descriptor
		panicked, where, msg = guard(func() {
			c, err := p.CodecForType(gt)
			if err != nil {
				return
			}
			d = c.Descriptor()
			out["desc"] = M{"have": true, "d": projDesc(&d, 12)}
		})
		if panicked {
			out["desc"] = M{"have": false, "panic": true, "where": where, "msg": msg}
		} else if out["desc"].(M)["have"].(bool) && out["merr"] == "" {
			// C13: the marshalled bytes rendered as JSON through the descriptor: taken directly, after a plenc
			// round trip and after an encoding/json round trip of the descriptor itself
			out["json"] = renderJSON(p, &d, abs.ToBytes(out["bytes"]))
			out["jsonable"] = jsonable(in.Elem())
		}
	}
	return out
}
