package main

import (
	"bufio"
	"encoding/json"
	"flag"
	"math/rand"
	"os"
	"reflect"

	"verifharness/internal/abs"
	"verifharness/internal/gen"
)

var cfgs = map[string]Cfg{
	"default": {Null: true, BQ: true},
	"pt":      {ProtoTime: true, Null: true, BQ: true},
	"pa":      {ProtoArrays: true, Null: true},
	"both":    {ProtoTime: true, ProtoArrays: true, Null: true},
	"mk":      {Null: true, Marker: "plain"},
	"mktag":   {Null: true, Marker: "tagged"},
	"mkboth":  {Null: true, Marker: "both", ProtoTime: true},
	"rf":      {Null: true, Marker: "rf"}, // a codec registered for the struct type RefNode under the tag rf (used from inside RefNode itself)
	"mkkind":  {Null: true, Marker: "kind"}, // the marker codec registered for the basic type int32: named int32 types without a registration fall back to it
	"bq":      {Null: true, BQ: true},
	"pkg":     {Null: false}, // the package-level functions (plenc.Marshal / plenc.Unmarshal)
}

func cmdGen(args []string) {
	fs := flag.NewFlagSet("gen", flag.ExitOnError)
	kind := fs.String("kind", "codec", "")
	n := fs.Int("n", 1000, "")
	seed := fs.Int64("seed", 1, "")
	cfgName := fs.String("cfg", "default", "default|pt|pa|both|mix")
	out := fs.String("o", "cases.ndjson", "")
	depth := fs.Int("depth", 3, "")
	idBase := fs.Int("idbase", 0, "")
	fs.Parse(args)
	r := rand.New(rand.NewSource(*seed))
	f, err := os.Create(*out)
	if err != nil {
		panic(err)
	}
	defer f.Close()
	w := bufio.NewWriterSize(f, 1<<20)
	defer w.Flush()
	enc := json.NewEncoder(w)
	names := []string{"default", "pt", "pa", "both"}
	for i := 0; i < *n; i++ {
		cn := *cfgName
		if cn == "mix" {
			cn = names[r.Intn(4)]
		}
		cfg := cfgs[cn]
		if i%sessLen == 0 {
			gen.Pool = nil
		}
		switch *kind {
		case "codec":
			o := gen.Opts{Null: cfg.Null, Named: true, Options: true, Proto: cfg.ProtoArrays, BQ: cfg.BQ}
			var t *abs.TD
			for {
				t = gen.Type(r, o, *depth, false)
				// the API takes a pointer to T: a top-level pointer type has no presence representation;
				// in the proto-compatible array mode the top level is a struct (wrapper.go)
				if b := gen.Base(t); t.K == "ptr" || b.K == "null" {
					continue // no presence representation at the top level (scope decision, DESIGN 2.1)
				}
				if cfg.ProtoArrays && gen.Base(t).K != "struct" {
					continue
				}
				break
			}
			gt := abs.GoType(t)
			v := reflect.New(gt)
			gen.Fill(r, t, v.Elem(), 6)
			ev := M{"ev": "codec", "id": *idBase + i, "sess": i / sessLen, "cfg": cfg, "T": t, "v": abs.Project(t, v.Elem())}
			if err := enc.Encode(ev); err != nil {
				panic(err)
			}
		default:
			if g, ok := generators[*kind]; ok {
				g(r, enc, cfg, *idBase+i, *depth)
			} else {
				panic("unknown kind " + *kind)
			}
		}
	}
}

var generators = map[string]func(r *rand.Rand, enc *json.Encoder, cfg Cfg, id int, depth int){
	"catitem": genCatItem,
}

// genCatItem writes one random catalogue item for the history checks (C06, C11): a type without maps (histories compare
// bytes exactly), its zero value and a random value.
func genCatItem(r *rand.Rand, enc *json.Encoder, cfg Cfg, id int, depth int) {
	o := gen.Opts{Null: cfg.Null, Named: true, Options: true, Proto: false, BQ: cfg.BQ}
	gen.Pool = nil
	var t *abs.TD
	for {
		t = gen.Type(r, o, depth, false)
		if b := gen.Base(t); t.K == "ptr" || b.K == "null" || hasKind(t, "map", 6) {
			continue
		}
		break
	}
	gt := abs.GoType(t)
	z := reflect.New(gt)
	v := reflect.New(gt)
	gen.Fill(r, t, v.Elem(), 4)
	name := "default"
	for n, c := range cfgs {
		if c == cfg && n != "bq" {
			name = n
		}
	}
	if err := enc.Encode(M{"T": t, "vals": []any{abs.Project(t, z.Elem()), abs.Project(t, v.Elem())}, "cfg": name}); err != nil {
		panic(err)
	}
}

// hasKind reports whether the abstract type contains the kind anywhere (named types included).
func hasKind(t *abs.TD, k string, fuel int) bool {
	if t == nil || fuel == 0 {
		return false
	}
	if t.K == k {
		return true
	}
	if t.K == "ref" {
		return hasKind(abs.Env()[t.N], k, fuel-1)
	}
	if hasKind(t.E, k, fuel-1) || hasKind(t.Key, k, fuel-1) || hasKind(t.Val, k, fuel-1) {
		return true
	}
	for i := range t.F {
		if hasKind(t.F[i].T, k, fuel-1) {
			return true
		}
	}
	return false
}
