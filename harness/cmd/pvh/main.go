// pvh is the conformance harness: it builds values, calls plenc, and logs what happened as
// ndjson. All verdicts about values and bytes are computed by TLC from these logs.
package main

import (
	"bufio"
	"encoding/json"
	"flag"
	"fmt"
	"os"
	"os/exec"
	"runtime"
	"sort"
	"strconv"
	"strings"
	"sync"
	"time"

	"verifharness/internal/abs"
)

func main() {
	if len(os.Args) < 2 {
		fmt.Fprintln(os.Stderr, "usage: pvh typesdb|gen|run|worker ...")
		os.Exit(2)
	}
	switch os.Args[1] {
	case "typesdb":
		enc := json.NewEncoder(os.Stdout)
		if err := enc.Encode(abs.Env()); err != nil {
			panic(err)
		}
	case "gen":
		cmdGen(os.Args[2:])
	case "run":
		cmdRun(os.Args[2:])
	case "worker":
		cmdWorker(os.Args[2:])
	default:
		fmt.Fprintln(os.Stderr, "unknown command", os.Args[1])
		os.Exit(2)
	}
}

// ---- worker: executes cases [from, to) of a file, one result line per case on stdout ----

func cmdWorker(args []string) {
	fs := flag.NewFlagSet("worker", flag.ExitOnError)
	in := fs.String("in", "", "")
	from := fs.Int("from", 0, "")
	to := fs.Int("to", 1<<30, "")
	fs.Parse(args)
	f, err := os.Open(*in)
	if err != nil {
		panic(err)
	}
	defer f.Close()
	sc := bufio.NewScanner(f)
	sc.Buffer(make([]byte, 1<<20), 1<<28)
	w := bufio.NewWriterSize(os.Stdout, 1<<16)
	for i := 0; sc.Scan(); i++ {
		if i < *from {
			continue
		}
		if i >= *to {
			break
		}
		line := sc.Bytes()
		fmt.Fprintf(w, "#START %d\n", i)
		w.Flush()
		out := execLine(line)
		w.Write(out)
		w.WriteByte('\n')
		w.Flush()
	}
}

// ---- run: shards the case file over isolated workers, restarts them on crashes / hangs ----

// sessLen is the number of consecutive random cases that share one Plenc instance.
const sessLen = 50

type shardRes struct {
	lines map[int][]byte
}

func cmdRun(args []string) {
	fs := flag.NewFlagSet("run", flag.ExitOnError)
	in := fs.String("in", "", "case file (ndjson)")
	out := fs.String("out", "", "trace file (ndjson)")
	nw := fs.Int("workers", runtime.NumCPU(), "")
	budget := fs.Duration("budget", 10*time.Second, "per-case time budget before the worker is killed")
	mem := fs.Int("memMB", 0, "address-space limit of a worker in MB (0 = none)")
	fs.Parse(args)

	n := countLines(*in)
	if n == 0 {
		os.WriteFile(*out, nil, 0o644)
		return
	}
	if *nw > n {
		*nw = n
	}
	results := make([][]byte, n)
	var wg sync.WaitGroup
	per := (n + *nw - 1) / *nw
	per = (per + sessLen - 1) / sessLen * sessLen // sessions (cases sharing one Plenc instance) are never split
	for s := 0; s < *nw; s++ {
		lo, hi := s*per, (s+1)*per
		if hi > n {
			hi = n
		}
		if lo >= hi {
			continue
		}
		wg.Add(1)
		go func(lo, hi int) {
			defer wg.Done()
			runShard(*in, lo, hi, *budget, *mem, results)
		}(lo, hi)
	}
	wg.Wait()
	f, err := os.Create(*out)
	if err != nil {
		panic(err)
	}
	w := bufio.NewWriterSize(f, 1<<20)
	for i, r := range results {
		if r == nil {
			fmt.Fprintf(os.Stderr, "pvh: no result for case %d\n", i)
			os.Exit(2)
		}
		w.Write(r)
		w.WriteByte('\n')
	}
	w.Flush()
	f.Close()
}

func countLines(path string) int {
	f, err := os.Open(path)
	if err != nil {
		panic(err)
	}
	defer f.Close()
	sc := bufio.NewScanner(f)
	sc.Buffer(make([]byte, 1<<20), 1<<28)
	n := 0
	for sc.Scan() {
		n++
	}
	return n
}

func caseLine(path string, idx int) []byte {
	f, _ := os.Open(path)
	defer f.Close()
	sc := bufio.NewScanner(f)
	sc.Buffer(make([]byte, 1<<20), 1<<28)
	for i := 0; sc.Scan(); i++ {
		if i == idx {
			return append([]byte{}, sc.Bytes()...)
		}
	}
	return nil
}

// runShard runs cases [lo,hi) in a worker process; when the worker dies or stalls, the case in
// flight is recorded as "fatal" / "timeout" (with the innermost plenc frame of the crash) and a
// new worker continues after it.
func runShard(in string, lo, hi int, budget time.Duration, memMB int, results [][]byte) {
	self, _ := os.Executable()
	for lo < hi {
		argv := []string{self, "worker", "-in", in, "-from", strconv.Itoa(lo), "-to", strconv.Itoa(hi)}
		var cmd *exec.Cmd
		if memMB > 0 {
			sh := fmt.Sprintf("ulimit -v %d; exec \"$0\" \"$@\"", memMB*1024)
			cmd = exec.Command("/bin/sh", append([]string{"-c", sh}, argv...)...)
		} else {
			cmd = exec.Command(argv[0], argv[1:]...)
		}
		cmd.Env = append(os.Environ(), "GOTRACEBACK=single", "GOMAXPROCS="+envOr("PVH_GOMAXPROCS", "2"), "GORACE=halt_on_error=1 exitcode=66")
		stdout, _ := cmd.StdoutPipe()
		var errb strings.Builder
		cmd.Stderr = &limitedWriter{w: &errb, n: 1 << 16}
		if err := cmd.Start(); err != nil {
			panic(err)
		}
		lines := make(chan []byte, 64)
		go func() {
			sc := bufio.NewScanner(stdout)
			sc.Buffer(make([]byte, 1<<20), 1<<28)
			for sc.Scan() {
				lines <- append([]byte{}, sc.Bytes()...)
			}
			close(lines)
		}()
		inflight := -1
		started := time.Now()
		kind := ""
	loop:
		for {
			timer := time.NewTimer(budget)
			select {
			case l, ok := <-lines:
				timer.Stop()
				if !ok {
					break loop
				}
				if strings.HasPrefix(string(l), "#START ") {
					inflight, _ = strconv.Atoi(string(l[7:]))
					started = time.Now()
					continue
				}
				if inflight >= 0 {
					results[inflight] = l
					lo = inflight + 1
					inflight = -1
				}
			case <-timer.C:
				if inflight >= 0 && time.Since(started) >= budget {
					kind = "timeout"
					cmd.Process.Kill()
					break loop
				}
			}
		}
		for range lines {
		}
		err := cmd.Wait()
		if inflight >= 0 {
			if kind == "" {
				kind = "fatal"
			}
			results[inflight] = crashRecord(caseLine(in, inflight), kind, errb.String(), time.Since(started))
			lo = inflight + 1
		} else if err != nil && lo < hi {
			// died between cases: treat the next case as the culprit only if it never started; retry
			fmt.Fprintf(os.Stderr, "pvh: worker exited abnormally between cases (%v): %s\n", err, tail(errb.String(), 400))
			os.Exit(2)
		} else if lo < hi && err == nil {
			// clean exit without finishing: should not happen
			fmt.Fprintf(os.Stderr, "pvh: worker stopped early at %d of [%d)\n", lo, hi)
			os.Exit(2)
		}
	}
}

func envOr(k, d string) string {
	if v := os.Getenv(k); v != "" {
		return v
	}
	return d
}

type limitedWriter struct {
	w *strings.Builder
	n int
}

func (l *limitedWriter) Write(p []byte) (int, error) {
	if l.n > 0 {
		q := p
		if len(q) > l.n {
			q = q[:l.n]
		}
		l.w.Write(q)
		l.n -= len(q)
	}
	return len(p), nil
}

func tail(s string, n int) string {
	if len(s) > n {
		return s[len(s)-n:]
	}
	return s
}

// crashRecord completes a case whose worker died: out = {kind: fatal|timeout, where, msg}.
func crashRecord(line []byte, kind, stderr string, d time.Duration) []byte {
	var ev map[string]any
	if err := json.Unmarshal(line, &ev); err != nil {
		ev = map[string]any{"ev": "broken"}
	}
	msg := firstLine(stderr)
	ev["out"] = crashOut(ev, kind, plencFrame(stderr), msg, int(d/time.Millisecond))
	if strings.Contains(stderr, "DATA RACE") {
		kind = "race"
		ev["out"] = crashOut(ev, kind, raceFrame(stderr), "WARNING: DATA RACE", int(d/time.Millisecond))
	}
	if ev["ev"] == "sched" || ev["ev"] == "stress" {
		ev["out"] = map[string]any{"kind": kind, "where": ev["out"].(map[string]any)["where"], "msg": msg, "results": []any{}, "hooks": []any{}}
	}
	if ev["ev"] == "hist" {
		ev["out"] = map[string]any{"kind": kind, "where": plencFrame(stderr), "msg": msg, "steps": []any{}}
	}
	b, _ := json.Marshal(ev)
	return b
}

func firstLine(s string) string {
	for _, l := range strings.Split(s, "\n") {
		l = strings.TrimSpace(l)
		if l != "" {
			if len(l) > 200 {
				l = l[:200]
			}
			return l
		}
	}
	return ""
}

// plencFrame extracts the innermost frame inside the plenc module from a Go stack dump.
func plencFrame(stack string) string {
	lines := strings.Split(stack, "\n")
	for i, l := range lines {
		if strings.HasPrefix(l, "github.com/philpearl/plenc") && i+1 < len(lines) {
			fn := l
			if p := strings.LastIndex(fn, "("); p > 0 {
				fn = fn[:p]
			}
			fn = strings.TrimPrefix(fn, "github.com/philpearl/plenc")
			loc := strings.TrimSpace(lines[i+1])
			if p := strings.Index(loc, " "); p > 0 {
				loc = loc[:p]
			}
			if p := strings.LastIndex(loc, "/"); p >= 0 {
				loc = loc[p+1:]
			}
			return strings.TrimPrefix(fn, "/") + "@" + loc
		}
	}
	return ""
}

// raceFrame extracts the first plenc frame of a race detector report.
func raceFrame(report string) string {
	for _, l := range strings.Split(report, "\n") {
		l = strings.TrimSpace(l)
		if strings.HasPrefix(l, "github.com/philpearl/plenc") {
			if p := strings.LastIndex(l, "("); p > 0 {
				l = l[:p]
			}
			return strings.TrimPrefix(strings.TrimPrefix(l, "github.com/philpearl/plenc"), "/")
		}
	}
	return ""
}

func sortedKeys(m map[string]any) []string {
	ks := make([]string, 0, len(m))
	for k := range m {
		ks = append(ks, k)
	}
	sort.Strings(ks)
	return ks
}
