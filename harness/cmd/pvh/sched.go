//go:build verif

package main

import (
	"bytes"
	"strings"
	"encoding/json"
	"reflect"
	"runtime"
	"strconv"
	"sync"
	"time"

	"github.com/philpearl/plenc"

	"verifharness/internal/abs"
)

// "sched" events (C07, C19): several goroutines make their first use of related types on one fresh
// Plenc instance; the verif yield hooks park every goroutine at each yield point and the driver grants
// one segment at a time following the event's schedule, so an interleaving is replayed deterministically.
func init() { executors["sched"] = execSched }

type schedProc struct {
	Op string          `json:"op"` // marshal | unmarshal | codec
	T  *abs.TD         `json:"T"`
	V  json.RawMessage `json:"v"`
}

func goid() int {
	var buf [64]byte
	n := runtime.Stack(buf[:], false)
	// "goroutine 123 ["
	f := bytes.Fields(buf[:n])
	if len(f) < 2 {
		return -1
	}
	id, _ := strconv.Atoi(string(f[1]))
	return id
}

type schedEv struct {
	p     int
	point string // yield point, or "done"
	arg   string // the object a point concerns ("point@address" hooks), as a small number per execution
}

var schedMu sync.Mutex // one scheduled execution at a time per process (the hook is global)

func execSched(h *caseHdr, ev M, line []byte) any {
	var hd struct {
		Procs    []schedProc `json:"procs"`
		Schedule []int       `json:"schedule"`
	}
	if err := json.Unmarshal(line, &hd); err != nil {
		panic(err)
	}
	schedMu.Lock()
	defer schedMu.Unlock()
	old := runtime.GOMAXPROCS(1) // one P: sync.Pool hand-over between the goroutines is deterministic
	defer runtime.GOMAXPROCS(old)

	n := len(hd.Procs)
	inst := newInstance(h.Cfg)
	prep := newInstance(h.Cfg) // encodings for the unmarshal ops are produced on another instance
	type pstate struct {
		wake   chan struct{}
		state  string // new | parked | running | blocked | done
		result M
		data   []byte        // the input of an unmarshal op
		back   reflect.Value // what it was decoded into
	}
	ps := make([]*pstate, n)
	events := make(chan schedEv, 64)
	var gmu sync.Mutex
	gids := map[int]int{}
	hooks := []any{}
	objs := map[string]int{} // addresses -> 1, 2, ... in order of first appearance (0 = the point has no object)
	objID := func(a string) int {
		if a == "" {
			return 0
		}
		if _, ok := objs[a]; !ok {
			objs[a] = len(objs) + 1
		}
		return objs[a]
	}

	plenc.SetVerifHook(func(point string) {
		gmu.Lock()
		p, ok := gids[goid()]
		gmu.Unlock()
		if !ok {
			return // not one of ours (e.g. the preparation)
		}
		arg := ""
		if at := strings.IndexByte(point, '@'); at >= 0 {
			point, arg = point[:at], point[at+1:]
		}
		events <- schedEv{p, point, arg}
		<-ps[p].wake
	})
	defer plenc.SetVerifHook(nil)

	for i := range hd.Procs {
		i := i
		pr := hd.Procs[i]
		st := &pstate{wake: make(chan struct{}), state: "new", result: M{"op": pr.Op, "panic": false, "where": "", "msg": "", "err": "", "bytes": []any{}, "back": []any{}, "backAfter": []any{}}}
		ps[i] = st
		gt := abs.GoType(pr.T)
		in := reflect.New(gt)
		abs.Build(pr.T, decodeAny(pr.V), in.Elem())
		var data []byte
		if pr.Op == "unmarshal" || pr.Op == "corrupt" {
			var err error
			data, err = prep.Marshal(nil, in.Interface())
			if err != nil {
				st.result["err"] = "preparation: " + err.Error()
			}
			if pr.Op == "corrupt" && len(data) > 0 {
				data[len(data)-1] = 0x80 // the last value of the last entry becomes a truncated varint: the decode fails inside the entry
			}
			st.data = data
		}
		go func() {
			gmu.Lock()
			gids[goid()] = i
			gmu.Unlock()
			<-st.wake
			panicked, where, msg := guard(func() {
				switch pr.Op {
				case "marshal":
					b, err := inst.Marshal(nil, in.Interface())
					st.result["err"] = errStr(err)
					st.result["bytes"] = abs.Bytes(b)
				case "unmarshal":
					back := reflect.New(gt)
					err := inst.Unmarshal(data, back.Interface())
					st.result["err"] = errStr(err)
					st.result["back"] = abs.Project(pr.T, back.Elem())
					st.back = back
				case "corrupt":
					back := reflect.New(gt)
					err := inst.Unmarshal(data, back.Interface())
					st.result["err"] = errStr(err) // value or error: what hostile input gives is C04's business
				case "codec":
					_, err := inst.CodecForType(gt)
					st.result["err"] = errStr(err)
				}
			})
			if panicked {
				st.result["panic"], st.result["where"], st.result["msg"] = true, where, msg
			}
			events <- schedEv{i, "done", ""}
		}()
	}
	stuck := false
	// grant p one segment: wake it and wait until it parks again, finishes, or turns out to be blocked on a lock
	grant := func(p int) {
		st := ps[p]
		if st.state == "done" || st.state == "blocked" || st.state == "running" {
			return
		}
		st.state = "running"
		st.wake <- struct{}{}
		deadline := time.After(5 * time.Second)
		quick := time.After(30 * time.Millisecond)
		for {
			select {
			case e := <-events:
				if e.point == "done" {
					ps[e.p].state = "done"
				} else {
					ps[e.p].state = "parked"
				}
				hooks = append(hooks, M{"p": e.p, "point": e.point, "arg": objID(e.arg)})
				if e.p == p {
					return
				}
			case <-quick:
				// p neither parked nor finished: it waits for a lock held by a parked goroutine
				st.state = "blocked"
				return
			case <-deadline:
				stuck = true
				return
			}
		}
	}
	// a blocked goroutine proceeds by itself once the lock is released: collect its event before going on
	settle := func() {
		for {
			anyBlocked := false
			for _, st := range ps {
				if st.state == "blocked" {
					anyBlocked = true
				}
			}
			if !anyBlocked {
				return
			}
			select {
			case e := <-events:
				if e.point == "done" {
					ps[e.p].state = "done"
				} else {
					ps[e.p].state = "parked"
				}
				hooks = append(hooks, M{"p": e.p, "point": e.point, "arg": objID(e.arg)})
			case <-time.After(30 * time.Millisecond):
				return
			}
		}
	}
	for _, p := range hd.Schedule {
		if p < 0 || p >= n || stuck {
			continue
		}
		grant(p)
		settle()
	}
	// run everything that is left to completion, lowest process first
	for round := 0; round < 10000 && !stuck; round++ {
		progressed := false
		for p := range ps {
			if ps[p].state == "new" || ps[p].state == "parked" {
				grant(p)
				settle()
				progressed = true
				break
			}
		}
		if !progressed {
			settle()
			done := true
			for _, st := range ps {
				if st.state != "done" {
					done = false
				}
			}
			if done {
				break
			}
			if round > 200 {
				stuck = true
			}
		}
	}
	// C11 under concurrency: once everything has returned the callers re-use their input buffers; what was decoded must not change
	for i, st := range ps {
		if st.state == "done" && st.back.IsValid() && st.result["panic"] == false {
			for j := range st.data {
				st.data[j] = 'X'
			}
		}
		_ = i
	}
	for i, st := range ps {
		if st.state == "done" && st.back.IsValid() && st.result["panic"] == false {
			st.result["backAfter"] = abs.Project(hd.Procs[i].T, st.back.Elem())
		} else {
			st.result["backAfter"] = st.result["back"]
		}
	}
	results := []any{}
	for _, st := range ps {
		st.result["state"] = st.state
		results = append(results, st.result)
	}
	kind := "ok"
	if stuck {
		kind = "timeout"
	}
	return M{"kind": kind, "results": results, "hooks": hooks, "where": "", "msg": ""}
}

// "stress" events: free-running concurrent first use (no hooks): every round a fresh instance, all
// goroutines released at once, each marshalling and decoding one of the given values. The distinct
// results per proc are logged (the race detector observes the same executions in the -race build).
func init() { executors["stress"] = execStress }

func execStress(h *caseHdr, ev M, line []byte) any {
	var hd struct {
		Procs  []schedProc `json:"procs"`
		Rounds int         `json:"rounds"`
		Copies int         `json:"copies"`
	}
	if err := json.Unmarshal(line, &hd); err != nil {
		panic(err)
	}
	schedMu.Lock()
	defer schedMu.Unlock()
	plenc.SetVerifHook(nil)
	type res struct {
		Bytes string
		Back  string
		Err   string
		Panic string
	}
	distinct := make([]map[res]bool, len(hd.Procs))
	for i := range distinct {
		distinct[i] = map[res]bool{}
	}
	var mu sync.Mutex
	ins := make([]reflect.Value, len(hd.Procs))
	for i, pr := range hd.Procs {
		ins[i] = reflect.New(abs.GoType(pr.T))
		abs.Build(pr.T, decodeAny(pr.V), ins[i].Elem())
	}
	for round := 0; round < hd.Rounds; round++ {
		inst := newInstance(h.Cfg)
		start := make(chan struct{})
		var wg sync.WaitGroup
		for c := 0; c < hd.Copies; c++ {
			for i := range hd.Procs {
				i := i
				wg.Add(1)
				go func() {
					defer wg.Done()
					<-start
					var r res
					panicked, where, msg := guard(func() {
						b, err := inst.Marshal(nil, ins[i].Interface())
						r.Err = errStr(err)
						r.Bytes = string(b)
						if err == nil {
							back := reflect.New(ins[i].Type().Elem())
							if err := inst.Unmarshal(b, back.Interface()); err != nil {
								r.Err = "unmarshal: " + errStr(err)
							} else {
								j, _ := json.Marshal(abs.Project(hd.Procs[i].T, back.Elem()))
								r.Back = string(j)
							}
						}
					})
					if panicked {
						r.Panic = where + " " + msg
					}
					mu.Lock()
					distinct[i][r] = true
					mu.Unlock()
				}()
			}
		}
		close(start)
		wg.Wait()
	}
	results := []any{}
	for i := range hd.Procs {
		rs := []any{}
		for r := range distinct[i] {
			var back any = []any{}
			if r.Back != "" {
				json.Unmarshal([]byte(r.Back), &back)
			}
			rs = append(rs, M{"op": "both", "state": "done", "panic": r.Panic != "", "where": r.Panic, "msg": "", "err": r.Err, "bytes": abs.Bytes([]byte(r.Bytes)), "back": back, "haveBack": r.Back != ""})
		}
		results = append(results, rs)
	}
	return M{"kind": "ok", "results": results, "hooks": []any{}, "where": "", "msg": ""}
}
