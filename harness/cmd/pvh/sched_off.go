//go:build !verif

package main

// without the verif build tag the library has no yield hooks: "sched" events cannot be executed
func init() {
	executors["sched"] = func(h *caseHdr, ev M, line []byte) any {
		return M{"kind": "harness-error", "msg": "pvh was built without -tags verif"}
	}
}
