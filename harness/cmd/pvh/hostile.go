package main

import (
	"encoding/json"
	"math/rand"
	"reflect"
	"runtime"
	"time"

	"github.com/philpearl/plenc/plenccodec"

	"verifharness/internal/abs"
	"verifharness/internal/gen"
)

// "hostile" events: arbitrary bytes are decoded into a target type, through Unmarshal and through the
// type's Descriptor (C04). The harness only observes: returned / error / panic, time, bytes allocated.
func init() {
	executors["hostile"] = execHostile
	generators["hostile"] = genHostile
}

type nullOut struct{}

func (nullOut) StartObject()     {}
func (nullOut) EndObject()       {}
func (nullOut) StartArray()      {}
func (nullOut) EndArray()        {}
func (nullOut) NameField(string) {}
func (nullOut) Int64(int64)      {}
func (nullOut) Uint64(uint64)    {}
func (nullOut) Float64(float64)  {}
func (nullOut) Float32(float32)  {}
func (nullOut) String(string)    {}
func (nullOut) Bool(bool)        {}
func (nullOut) Time(time.Time)   {}
func (nullOut) Raw(string)       {}

func execHostile(h *caseHdr, ev M, line []byte) any {
	out := M{"kind": "ok", "panic": false, "where": "", "msg": "", "alloc": 0, "allocMB": 0, "ms": 0, "err": ""}
	input := abs.ToBytes(ev["input"])
	via, _ := ev["via"].(string)
	p := instanceFor(h)
	gt := abs.GoType(h.T)
	// codec construction is not what is measured
	c, err := p.CodecForType(gt)
	if err != nil {
		out["kind"], out["msg"] = "harness-error", "no codec for the target type: "+err.Error()
		return out
	}
	var desc plenccodec.Descriptor
	if via == "descriptor" {
		desc = c.Descriptor()
	}
	data := append([]byte{}, input...)
	var m0, m1 runtime.MemStats
	runtime.ReadMemStats(&m0)
	t0 := time.Now()
	panicked, where, msg := guard(func() {
		var err error
		if via == "descriptor" {
			var jo plenccodec.JSONOutput
			err = desc.Read(&jo, data)
		} else {
			target := reflect.New(gt)
			err = p.Unmarshal(data, target.Interface())
		}
		if err != nil {
			out["kind"], out["err"] = "err", errStr(err)
		}
	})
	out["ms"] = int(time.Since(t0) / time.Millisecond)
	runtime.ReadMemStats(&m1)
	d := m1.TotalAlloc - m0.TotalAlloc
	// TotalAlloc is process-wide (the worker's own reader and writer allocate too): a measurement above the bound is repeated
	// and the smallest one reported - what the decoder itself allocates comes back every time
	for try := 0; try < 2 && !panicked && d>>20 >= uint64(1+4*len(input)/1024) && time.Since(t0) < 2*time.Second; try++ {
		runtime.GC()
		copy(data, input)
		runtime.ReadMemStats(&m0)
		guard(func() {
			if via == "descriptor" {
				var jo plenccodec.JSONOutput
				_ = desc.Read(&jo, data)
			} else {
				target := reflect.New(gt)
				_ = p.Unmarshal(data, target.Interface())
			}
		})
		runtime.ReadMemStats(&m1)
		if d2 := m1.TotalAlloc - m0.TotalAlloc; d2 < d {
			d = d2
		}
	}
	out["alloc"] = int(d % (1 << 20))
	out["allocMB"] = int(d >> 20)
	if panicked {
		out["kind"], out["panic"], out["where"], out["msg"] = "panic", true, where, msg
	}
	out["inputIntact"] = string(data) == string(input)
	return out
}

// genHostile mutates valid encodings byte-wise (no knowledge of the format): truncation at every offset,
// every byte replaced by 00 / 7f / 80 / ff, huge varints spliced in at every offset, random splices.
func genHostile(r *rand.Rand, enc *json.Encoder, cfg Cfg, id int, depth int) {
	// handled in bulk by genHostileBulk; single-case generation draws one random mutation
	o := gen.Opts{Null: cfg.Null, Named: false, Options: true, Proto: cfg.ProtoArrays}
	var t *abs.TD
	for {
		t = gen.Type(r, o, depth, false)
		if t.K != "ptr" && gen.Base(t).K != "null" && !(cfg.ProtoArrays && gen.Base(t).K != "struct") {
			break
		}
	}
	gt := abs.GoType(t)
	v := reflect.New(gt)
	gen.Fill(r, t, v.Elem(), 5)
	p := newInstance(cfg)
	data, err := p.Marshal(nil, v.Interface())
	if err != nil {
		data = nil
	}
	if len(data) > 400 {
		data = data[:400]
	}
	huge := [][]byte{{0x80, 0x80, 0x80, 0x80, 0x08}, {0x80, 0x80, 0x80, 0x80, 0x80, 0x20}, {0xff, 0xff, 0xff, 0xff, 0xff, 0xff, 0xff, 0xff, 0xff, 0x01},
		{0xff, 0xff, 0xff, 0xff, 0xff, 0xff, 0xff, 0xff, 0xff, 0x7f}, {0x80, 0x80, 0x80, 0x80, 0x80, 0x80, 0x80, 0x80, 0x80, 0x80, 0x01}, {0xff}, {0x80},
		// lengths around 2^63 and just below 2^64: where signed arithmetic on a length wraps
		{0x80, 0x80, 0x80, 0x80, 0x80, 0x80, 0x80, 0x80, 0x80, 0x01}, {0xff, 0xff, 0xff, 0xff, 0xff, 0xff, 0xff, 0xff, 0x7f},
		{0xf7, 0xff, 0xff, 0xff, 0xff, 0xff, 0xff, 0xff, 0x7f}, {0xf5, 0xff, 0xff, 0xff, 0xff, 0xff, 0xff, 0xff, 0xff, 0x01},
		{0xf6, 0xff, 0xff, 0xff, 0xff, 0xff, 0xff, 0xff, 0xff, 0x01}, {0xfe, 0xff, 0xff, 0xff, 0xff, 0xff, 0xff, 0xff, 0xff, 0x01},
		{0xff, 0xff, 0xff, 0xff, 0x07}, {0xff, 0xff, 0xff, 0xff, 0x0f}, {0x80, 0x80, 0x80, 0x80, 0x10}}
	m := append([]byte{}, data...)
	nm := 1 + r.Intn(3)
	for j := 0; j < nm; j++ {
		switch r.Intn(6) {
		case 5:
			// a stretch of the message occurs twice (a field repeated, an entry repeated)
			if len(m) > 1 {
				at := r.Intn(len(m) - 1)
				n := 1 + r.Intn(len(m)-at-1)
				dup := append([]byte{}, m[at:at+n]...)
				m = append(append(append([]byte{}, m[:at+n]...), dup...), m[at+n:]...)
			}
		case 0:
			m = m[:r.Intn(len(m)+1)]
		case 1:
			if len(m) > 0 {
				m[r.Intn(len(m))] = []byte{0, 0x7f, 0x80, 0xff, 1, 2, 3, 0x0a, 0x12, 0x0b, 0x13}[r.Intn(11)]
			}
		case 2:
			at := r.Intn(len(m) + 1)
			h := huge[r.Intn(len(huge))]
			m = append(append(append([]byte{}, m[:at]...), h...), m[at:]...)
		case 3:
			if len(m) > 1 {
				at := r.Intn(len(m) - 1)
				n := 1 + r.Intn(len(m)-at-1)
				m = append(append([]byte{}, m[:at]...), m[at+n:]...)
			}
		case 4:
			if len(m) > 0 {
				at := r.Intn(len(m))
				h := huge[r.Intn(len(huge))]
				m = append(append(append([]byte{}, m[:at]...), h...), m[at+1:]...)
			}
		}
	}
	// half of the time the bytes are read by another version of the type (fields removed, added, renamed at any depth):
	// the reader then has to skip what it does not know, inside slice elements and map values too
	if r.Intn(2) == 0 {
		t = derive(r, o, t, 2)
	}
	via := []string{"unmarshal", "unmarshal", "descriptor"}[r.Intn(3)]
	if via == "descriptor" && hasRecursion(t) {
		via = "unmarshal"
	}
	ev := M{"ev": "hostile", "id": id, "cfg": cfg, "T": t, "input": abs.Bytes(m), "via": via}
	if err := enc.Encode(ev); err != nil {
		panic(err)
	}
}
