package main

import (
	"encoding/json"
	"math/big"
	"math/rand"

	"github.com/philpearl/plenc/plenccore"

	"verifharness/internal/abs"
)

// "prim" events: the plenccore primitives on one value (C18).
func init() {
	executors["prim"] = execPrim
	generators["prim"] = genPrim
}

func limbsOf(u uint64) []any { return abs.Limbs(new(big.Int).SetUint64(u)) }

func execPrim(h *caseHdr, ev M, line []byte) any {
	out := M{"kind": "ok", "panic": false, "where": "", "msg": "", "skip": false}
	fn, _ := ev["fn"].(string)
	ub := abs.FromLimbs(asList(ev["u"]))
	panicked, where, msg := guard(func() {
		switch fn {
		case "varuint":
			if !ub.IsUint64() {
				out["skip"] = true
				return
			}
			u := ub.Uint64()
			app := plenccore.AppendVarUint(nil, u)
			out["app"] = abs.Bytes(app)
			out["size"] = plenccore.SizeVarUint(u)
			v, n := plenccore.ReadVarUint(app)
			out["readV"], out["readN"] = limbsOf(v), n
			v2, n2 := plenccore.ReadVarUint(append(append([]byte{}, app...), 0xff, 0x01))
			out["readV2"], out["readN2"] = limbsOf(v2), n2
			pre := plenccore.AppendVarUint([]byte{9, 9}, u)
			out["prefixKept"] = len(pre) == len(app)+2 && pre[0] == 9 && pre[1] == 9
			i := plenccore.ZagZig(u)
			out["zagzig"] = abs.AbsInt(i)
			out["zigzagBack"] = limbsOf(plenccore.ZigZag(i))
		case "varint+", "varint-":
			x := new(big.Int).Set(ub)
			if fn == "varint-" {
				x.Neg(x)
			}
			if !x.IsInt64() {
				out["skip"] = true
				return
			}
			i := x.Int64()
			app := plenccore.AppendVarInt(nil, i)
			out["app"] = abs.Bytes(app)
			out["size"] = plenccore.SizeVarInt(i)
			v, n := plenccore.ReadVarInt(app)
			out["readV"], out["readN"] = abs.AbsInt(v), n
			out["zigzag"] = limbsOf(plenccore.ZigZag(i))
			out["zagzigBack"] = abs.AbsInt(plenccore.ZagZig(plenccore.ZigZag(i)))
		case "tag":
			if !ub.IsInt64() || ub.Int64() > 1<<28 {
				out["skip"] = true
				return
			}
			idx := int(ub.Int64())
			tags := []any{}
			for wt := 0; wt <= 5; wt++ {
				app := plenccore.AppendTag(nil, plenccore.WireType(wt), idx)
				rwt, ridx, rn := plenccore.ReadTag(app)
				tags = append(tags, M{"wt": wt, "app": abs.Bytes(app), "size": plenccore.SizeTag(plenccore.WireType(wt), idx),
					"rwt": int(rwt), "ridx": limbsOf(uint64(ridx)), "rn": rn})
			}
			out["tags"] = tags
		case "skip":
			data := abs.ToBytes(ev["data"])
			n, err := plenccore.Skip(data, plenccore.WireType(num(ev["wt"])))
			out["n"], out["err"] = n, errStr(err)
		default:
			panic("unknown prim fn " + fn)
		}
	})
	if panicked {
		out["kind"], out["panic"], out["where"], out["msg"] = "panic", true, where, msg
	}
	return out
}

func asList(x any) []any {
	l, _ := x.([]any)
	return l
}

func num(x any) int {
	switch v := x.(type) {
	case float64:
		return int(v)
	case int:
		return v
	case json.Number:
		n, _ := v.Int64()
		return int(n)
	}
	return 0
}

func genPrim(r *rand.Rand, enc *json.Encoder, cfg Cfg, id int, depth int) {
	ev := M{"ev": "prim", "id": id, "cfg": cfg, "u": []any{}, "wt": 0, "data": []any{}}
	switch r.Intn(5) {
	case 0, 1:
		ev["fn"] = "varuint"
		ev["u"] = limbsOf(r.Uint64() >> uint(r.Intn(64)))
	case 2:
		ev["fn"] = []string{"varint+", "varint-"}[r.Intn(2)]
		ev["u"] = limbsOf(r.Uint64() >> uint(1+r.Intn(63)))
	case 3:
		ev["fn"] = "tag"
		ev["u"] = limbsOf(uint64(r.Intn(1<<28 + 1)))
	case 4:
		ev["fn"] = "skip"
		ev["wt"] = r.Intn(8)
		n := r.Intn(12)
		b := make([]byte, n)
		alpha := []byte{0, 1, 2, 3, 8, 0x7f, 0x80, 0x81, 0xff, 10, 0x12}
		for i := range b {
			if r.Intn(3) == 0 {
				b[i] = byte(r.Intn(256))
			} else {
				b[i] = alpha[r.Intn(len(alpha))]
			}
		}
		ev["data"] = abs.Bytes(b)
	}
	if err := enc.Encode(ev); err != nil {
		panic(err)
	}
}
