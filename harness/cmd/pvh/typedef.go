package main

import (
	"fmt"
	"math/rand"
	"reflect"

	"verifharness/internal/abs"
	"verifharness/internal/gen"
)

// "typedef" events (C08): plenc is asked for a codec for a type definition; if it hands one out, the
// codec is used on the zero value and on a populated value, decoding into a pre-populated target; if it
// refuses, the types it may already have published are requested again and used.
func init() { executors["typedef"] = execTypedef }

func execTypedef(h *caseHdr, ev M, line []byte) any {
	out := M{"kind": "ok", "panic": false, "where": "", "msg": "", "err": "", "rt": []any{}, "after": []any{}}
	p := newInstance(h.Cfg)
	var gt reflect.Type
	panicked, where, msg := guard(func() {
		if name, ok := ev["gotype"].(string); ok && name != "" {
			gt = abs.StaticBad[name]
			return
		}
		gt = abs.GoType(h.T)
	})
	if panicked {
		out["kind"], out["msg"] = "harness-error", "harness failed to build the type: "+msg+" "+where
		return out
	}
	var haveCodec bool
	panicked, where, msg = guard(func() {
		_, err := p.CodecForType(gt)
		out["err"] = errStr(err)
		haveCodec = err == nil
	})
	if panicked {
		out["kind"], out["panic"], out["where"], out["msg"] = "panic", true, where, "CodecForType: "+msg
		return out
	}
	r := rand.New(rand.NewSource(int64(h.ID) + 12345))
	use := func(t *abs.TD, rt reflect.Type, populated bool) M {
		res := M{"panic": false, "where": "", "msg": "", "merr": "", "uerr": "", "v": []any{}, "prior": []any{}, "bytes": []any{}, "back": []any{}, "populated": populated}
		panicked, where, msg := guard(func() {
			in := reflect.New(rt)
			if populated {
				gen.Fill(r, t, in.Elem(), 4)
			}
			res["v"] = abs.Project(t, in.Elem())
			data, merr := p.Marshal(nil, in.Interface())
			res["merr"] = errStr(merr)
			res["bytes"] = abs.Bytes(data)
			if merr != nil {
				return
			}
			target := reflect.New(rt)
			gen.Fill(r, t, target.Elem(), 3)
			res["prior"] = abs.Project(t, target.Elem())
			uerr := p.Unmarshal(data, target.Interface())
			res["uerr"] = errStr(uerr)
			res["back"] = abs.Project(t, target.Elem())
		})
		if panicked {
			res["panic"], res["where"], res["msg"] = true, where, msg
		}
		return res
	}
	if haveCodec {
		out["rt"] = []any{use(h.T, gt, false), use(h.T, gt, true)}
		return out
	}
	// rejected: whatever was published on the way must still be usable (or refused)
	after := []any{}
	try := func(name string, rt reflect.Type) {
		a := M{"what": name, "err": "", "panic": false, "where": "", "msg": ""}
		panicked, where, msg := guard(func() {
			_, err := p.CodecForType(rt)
			a["err"] = errStr(err)
			if err != nil {
				return
			}
			v := reflect.New(rt)
			if rt.Kind() == reflect.Slice {
				v.Elem().Set(reflect.MakeSlice(rt, 2, 2))
			}
			data, merr := p.Marshal(nil, v.Interface())
			if merr == nil {
				w := reflect.New(rt)
				_ = p.Unmarshal(data, w.Interface())
			}
		})
		if panicked {
			a["panic"], a["where"], a["msg"] = true, where, msg
		}
		after = append(after, a)
	}
	try("same", gt)
	try("[]T", reflect.SliceOf(gt))
	try("*T", reflect.PointerTo(gt))
	if gt.Kind() == reflect.Struct {
		for i := 0; i < gt.NumField(); i++ {
			ft := gt.Field(i).Type
			try(fmt.Sprintf("field%d", i), ft)
			if ft.Kind() == reflect.Struct || ft.Kind() == reflect.Slice {
				try(fmt.Sprintf("[]field%d", i), reflect.SliceOf(ft))
			}
		}
	}
	out["after"] = after
	return out
}
