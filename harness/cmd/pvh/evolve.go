package main

import (
	"encoding/json"
	"fmt"
	"math/rand"
	"reflect"

	"verifharness/internal/abs"
	"verifharness/internal/gen"
)

// "evolve" events: a value of type S is marshalled, the bytes are unmarshalled into a pre-populated
// variable of type S2 (C03: S2 derived from S by removing / adding / renaming / reordering fields;
// C10: S2 = S with a target that already holds data, stale elements beyond len included).
func init() {
	executors["evolve"] = execEvolve
	generators["evolve"] = func(r *rand.Rand, enc *json.Encoder, cfg Cfg, id, depth int) { genEvolve(r, enc, cfg, id, depth, true) }
	generators["merge"] = func(r *rand.Rand, enc *json.Encoder, cfg Cfg, id, depth int) {
		genEvolve(r, enc, cfg, id, depth, false)
	}
}

type evolveHdr struct {
	S     *abs.TD         `json:"S"`
	S2    *abs.TD         `json:"S2"`
	Prior json.RawMessage `json:"prior"`
}

func execEvolve(h *caseHdr, ev M, line []byte) any {
	var eh evolveHdr
	if err := json.Unmarshal(line, &eh); err != nil {
		panic(err)
	}
	out := M{"kind": "ok", "panic": false, "where": "", "msg": "", "merr": "", "uerr": "", "bytes": []any{}, "back": []any{}, "stage": "", "inputIntact": true, "sane": true}
	p := instanceFor(h)
	var in, target reflect.Value
	panicked, where, msg := guard(func() {
		in = reflect.New(abs.GoType(eh.S))
		abs.Build(eh.S, decodeAny(h.V), in.Elem())
		target = reflect.New(abs.GoType(eh.S2))
		abs.Build(eh.S2, decodeAny(eh.Prior), target.Elem())
	})
	if panicked {
		out["kind"], out["msg"] = "harness-error", "harness failed to build the case: "+msg+" "+where
		return out
	}
	panicked, where, msg = guard(func() {
		out["stage"] = "marshal"
		data, merr := p.Marshal(nil, in.Interface())
		out["merr"] = errStr(merr)
		out["bytes"] = abs.Bytes(data)
		if merr != nil {
			return
		}
		out["stage"] = "unmarshal"
		keep := append([]byte{}, data...)
		uerr := p.Unmarshal(data, target.Interface())
		out["uerr"] = errStr(uerr)
		abs.Corrupt = false
		out["back"] = abs.Project(eh.S2, target.Elem())
		out["sane"] = !abs.Corrupt
		out["inputIntact"] = string(keep) == string(data)
	})
	if panicked {
		out["kind"], out["panic"], out["where"], out["msg"] = "panic", true, where, msg
	}
	return out
}

// derive builds S2 from the struct type s.
func derive(r *rand.Rand, o gen.Opts, s *abs.TD, depth int) *abs.TD {
	switch s.K {
	case "ptr":
		return &abs.TD{K: "ptr", E: derive(r, o, s.E, depth)}
	case "slice":
		return &abs.TD{K: "slice", E: derive(r, o, s.E, depth)}
	case "map":
		return &abs.TD{K: "map", Key: s.Key, Val: derive(r, o, s.Val, depth)}
	case "struct":
	default:
		return s
	}
	used := map[int]bool{}
	for _, f := range s.F {
		if f.Enc {
			used[f.I] = true
		}
	}
	t := &abs.TD{K: "struct", Name: "", F: []abs.FD{}}
	for i, f := range s.F {
		if r.Intn(10) < 3 {
			continue // removed
		}
		g := f
		if f.Opt == "proto" && gen.Base(f.T).K == "slice" && r.Intn(2) == 0 {
			// the reader reads the repeated-field form through an untagged (counted-form) slice field: the documented cross-reading
			g.Opt = ""
		}
		if r.Intn(2) == 0 { // renamed
			g.GN = fmt.Sprintf("R%d", i)
			if !f.Enc && (f.GN[0] >= 'a' && f.GN[0] <= 'z') {
				g.GN = fmt.Sprintf("r%d", i)
			}
			g.N = g.GN
			g.JT = ""
		}
		if depth > 0 && r.Intn(2) == 0 {
			g.T = derive(r, o, f.T, depth-1)
		}
		t.F = append(t.F, g)
	}
	nadd := r.Intn(3)
	for i := 0; i < nadd; i++ {
		idx := 0
		for _, c := range []int{4, 5, 6, 14, 18, 301, 2046, 2049, 5001, 7, 8, 9} {
			if !used[c] {
				idx = c
				break
			}
		}
		if idx == 0 {
			break
		}
		used[idx] = true
		gn := fmt.Sprintf("A%d", i)
		t.F = append(t.F, abs.FD{I: idx, N: gn, GN: gn, Enc: true, T: gen.Type(r, o, 1, false)})
	}
	if r.Intn(2) == 0 {
		r.Shuffle(len(t.F), func(i, j int) { t.F[i], t.F[j] = t.F[j], t.F[i] })
	}
	return t
}

// shrink re-slices some slices so that stale elements stay in the backing array beyond len.
func shrink(r *rand.Rand, t *abs.TD, v reflect.Value) {
	switch t.K {
	case "ref":
		shrink(r, abs.Env()[t.N], v)
	case "slice":
		if v.Len() > 0 && r.Intn(2) == 0 {
			v.Set(v.Slice(0, r.Intn(v.Len())))
		}
		for i := 0; i < v.Len(); i++ {
			shrink(r, t.E, v.Index(i))
		}
	case "struct":
		for i := range t.F {
			shrink(r, t.F[i].T, abs.Fld(v, i))
		}
	case "ptr":
		if !v.IsNil() {
			shrink(r, t.E, v.Elem())
		}
	}
}

func genEvolve(r *rand.Rand, enc *json.Encoder, cfg Cfg, id, depth int, evolveType bool) {
	o := gen.Opts{Null: cfg.Null, Named: true, Options: true, Proto: cfg.ProtoArrays}
	var s *abs.TD
	for {
		s = gen.Type(r, o, depth, false)
		if s.K == "struct" || (!evolveType && s.K != "ptr" && gen.Base(s).K != "null" && !(cfg.ProtoArrays && gen.Base(s).K != "struct")) {
			break
		}
	}
	s2 := s
	if evolveType {
		s2 = derive(r, o, s, 2)
	}
	v := reflect.New(abs.GoType(s))
	gen.Fill(r, s, v.Elem(), 6)
	prior := reflect.New(abs.GoType(s2))
	if r.Intn(8) != 0 {
		gen.Fill(r, s2, prior.Elem(), 6)
		shrink(r, s2, prior.Elem())
	}
	ev := M{"ev": "evolve", "id": id, "sess": (id % 1000000) / sessLen, "cfg": cfg, "S": s, "S2": s2,
		"v": abs.Project(s, v.Elem()), "prior": abs.ProjectFull(s2, prior.Elem())}
	if err := enc.Encode(ev); err != nil {
		panic(err)
	}
}
