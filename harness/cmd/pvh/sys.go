package main

import (
	"strconv"
	"encoding/json"
	"fmt"
	"math/rand"
	"os"
	"reflect"
	"time"
	"unsafe"

	"github.com/philpearl/plenc"

	"verifharness/internal/abs"
)

// "hist" events: a history of API calls generated from the PlencSystem specification is executed on
// one Plenc instance with real buffers and variables; after every call the projected state of ALL
// live buffers and variables is logged (C06, C10, C11, C17, C19).

type catItem struct {
	T    *abs.TD           `json:"T"`
	Vals []json.RawMessage `json:"vals"`
	Cfg  string            `json:"cfg"`
}

type sysStep struct {
	Act   string `json:"act"`
	B     string `json:"b"`
	Pre   []int  `json:"pre"`
	Spare int    `json:"spare"`
	I     int    `json:"i"`
	K     int    `json:"k"`
	Conv  string `json:"conv"`
}

// api is how a history reaches one instance: a Plenc value's methods or the package-level functions.
type api struct {
	Marshal   func([]byte, interface{}) ([]byte, error)
	Unmarshal func([]byte, interface{}) error
}

var catalogue []catItem

func loadCatalogue() []catItem {
	if catalogue == nil {
		path := os.Getenv("PVH_CAT")
		b, err := os.ReadFile(path)
		if err != nil {
			panic("PVH_CAT: " + err.Error())
		}
		if err := json.Unmarshal(b, &catalogue); err != nil {
			panic(err)
		}
	}
	return catalogue
}

func init() { executors["hist"] = execHist }

// scramble overwrites, in place, every byte / element reachable from v that Marshal might have aliased.
func scramble(v reflect.Value) {
	switch v.Kind() {
	case reflect.Ptr:
		if !v.IsNil() {
			scramble(v.Elem())
		}
	case reflect.Slice:
		for i := 0; i < v.Len(); i++ {
			scramble(v.Index(i))
		}
	case reflect.Map:
		it := v.MapRange()
		var keys []reflect.Value
		for it.Next() {
			keys = append(keys, it.Key())
			e := reflect.New(v.Type().Elem()).Elem()
			e.Set(it.Value())
			scramble(e)
		}
		for _, k := range keys {
			v.SetMapIndex(k, reflect.Value{})
		}
	case reflect.Struct:
		if v.Type() == reflect.TypeOf(time.Time{}) {
			return
		}
		for i := 0; i < v.NumField(); i++ {
			scramble(abs.Fld(v, i))
		}
	case reflect.Uint8:
		v.SetUint(v.Uint() ^ 0xFF)
	case reflect.Int, reflect.Int8, reflect.Int16, reflect.Int32, reflect.Int64:
		v.SetInt(^v.Int())
	case reflect.Uint, reflect.Uint16, reflect.Uint32, reflect.Uint64:
		v.SetUint(^v.Uint())
	case reflect.String:
		v.SetString("scrambled")
	}
}

func execHist(h *caseHdr, ev M, line []byte) any {
	var hd struct {
		Steps []sysStep `json:"steps"`
	}
	if err := json.Unmarshal(line, &hd); err != nil {
		panic(err)
	}
	cat := loadCatalogue()
	insts := map[string]*plenc.Plenc{}
	inst := func(name string) api {
		if name == "pkg" {
			return api{plenc.Marshal, plenc.Unmarshal}
		}
		p, ok := insts[name]
		if !ok {
			c, known := cfgs[name]
			if !known {
				panic("unknown instance configuration " + name)
			}
			p = newInstance(c)
			insts[name] = p
		}
		return api{p.Marshal, p.Unmarshal}
	}
	bufs := map[string][]byte{}
	vars := map[int]reflect.Value{} // item index -> pointer to the decode target
	srcs := map[int]reflect.Value{} // item index -> pointer to the (persistent) value handed to Marshal
	outs := []any{}
	snapshot := func() M {
		bs := M{}
		for k, b := range bufs {
			bs[k] = abs.Bytes(b)
		}
		vs := M{}
		for i, pv := range vars {
			vs[fmt.Sprint(i)] = abs.Project(cat[i-1].T, pv.Elem())
		}
		return M{"bufs": bs, "vars": vs}
	}
	for si, s := range hd.Steps {
		o := M{"panic": false, "where": "", "msg": "", "err": "", "ret": []any{}, "prefixIntact": true, "aliases": false}
		panicked, where, msg := guard(func() {
			switch s.Act {
			case "newbuf":
				b := make([]byte, len(s.Pre), len(s.Pre)+s.Spare)
				for i, x := range s.Pre {
					b[i] = byte(x)
				}
				bufs[s.B] = b
			case "marshal", "reuse":
				it := cat[s.I-1]
				// the same Go variable is marshalled every time, its content rewritten in place in between
				src, ok := srcs[s.I]
				if !ok {
					src = reflect.New(abs.GoType(it.T))
					srcs[s.I] = src
				}
				abs.Build(it.T, decodeAny(it.Vals[s.K-1]), src.Elem())
				old := bufs[s.B]
				if s.Act == "reuse" {
					old = old[:0]
				}
				keep := append([]byte{}, old...)
				var arg any = src.Interface()
				if s.Conv == "val" {
					arg = src.Elem().Interface()
				}
				ret, err := inst(it.Cfg).Marshal(old, arg)
				o["err"] = errStr(err)
				o["ret"] = abs.Bytes(ret)
				// the bytes below the old length, read through the OLD slice (same backing array if it had room)
				o["prefixIntact"] = string(old) == string(keep) && len(ret) >= len(keep) && string(ret[:len(keep)]) == string(keep)
				if err == nil {
					bufs[s.B] = ret
				}
				o["aliases"] = overlaps(src.Elem(), ret) // the returned bytes must not share memory with the value
				scramble(src)                            // ... nor change when the value is overwritten in place
			case "unmarshal":
				it := cat[s.I-1]
				pv, ok := vars[s.I]
				if !ok {
					pv = reflect.New(abs.GoType(it.T))
					vars[s.I] = pv
				}
				err := inst(it.Cfg).Unmarshal(bufs[s.B], pv.Interface())
				o["err"] = errStr(err)
				o["aliases"] = overlaps(pv.Elem(), bufs[s.B]) // the decoded value must not share memory with the input
			case "scribble":
				b := bufs[s.B]
				for i := range b {
					b[i] = 0xAA
				}
				// also whatever lies between len and cap: the caller owns all of it
				full := b[:cap(b)]
				for i := len(b); i < len(full); i++ {
					full[i] = 0x55
				}
			case "fresh":
				vars[s.I] = reflect.New(abs.GoType(cat[s.I-1].T))
			default:
				panic("unknown act " + s.Act)
			}
		})
		if panicked {
			o["panic"], o["where"], o["msg"] = true, where, msg
		}
		func() {
			defer func() {
				if x := recover(); x != nil {
					o["post"] = M{"bufs": M{}, "vars": M{}}
					o["panic"], o["msg"] = true, fmt.Sprint("while re-reading the state: ", x)
				}
			}()
			o["post"] = snapshot()
		}()
		o["n"] = si + 1
		outs = append(outs, o)
		if o["panic"].(bool) {
			break
		}
	}
	return M{"kind": "ok", "steps": outs}
}

func init() { generators["hist"] = genHist }

// genHist draws a random history of 6..12 calls over the catalogue (two buffers). Unmarshal is only
// offered from a buffer that holds exactly one encoding of the item (as in the specification).
// encLen is the length of the encoding of value k of catalogue item i (the generator needs to know which buffers are
// empty, i.e. which hold exactly one value's encoding after the next marshal).
var encLenCache = map[[2]int]int{}

func encLen(cat []catItem, i, k int) int {
	key := [2]int{i, k}
	if n, ok := encLenCache[key]; ok {
		return n
	}
	it := cat[i-1]
	n := 1
	guard(func() {
		c, known := cfgs[it.Cfg]
		if !known {
			c = cfgs["default"]
		}
		gt := abs.GoType(it.T)
		v := reflect.New(gt)
		abs.Build(it.T, decodeAny(it.Vals[k-1]), v.Elem())
		if data, err := newInstance(c).Marshal(nil, v.Interface()); err == nil {
			n = len(data)
		}
	})
	encLenCache[key] = n
	return n
}

func genHist(r *rand.Rand, enc *json.Encoder, cfg Cfg, id int, depth int) {
	cat := loadCatalogue()
	if n, err := strconv.Atoi(os.Getenv("PVH_CAT_N")); err == nil && n > 0 && n < len(cat) {
		cat = cat[:n] // histories over the first n items only (the hand-picked ones: their values are chosen to collide)
	}
	bufsN := []string{"b1", "b2"}
	type hold struct{ i, k int }
	holds := map[string]hold{}
	length := map[string]int{} // 0 = empty / not created
	steps := []sysStep{}
	pres := [][]int{{}, {1}, {1, 2, 3}}
	spares := []int{0, 1, 64}
	n := 6 + r.Intn(7)
	for len(steps) < n {
		b := bufsN[r.Intn(2)]
		switch r.Intn(10) {
		case 0:
			if _, ok := length[b]; ok {
				continue
			}
			pre := pres[r.Intn(3)]
			steps = append(steps, sysStep{Act: "newbuf", B: b, Pre: pre, Spare: spares[r.Intn(3)]})
			length[b] = len(pre)
			holds[b] = hold{}
		case 1, 2, 3:
			i := 1 + r.Intn(len(cat))
			k := 1 + r.Intn(len(cat[i-1].Vals))
			conv := []string{"ptr", "val"}[r.Intn(2)]
			steps = append(steps, sysStep{Act: "marshal", B: b, Pre: []int{}, I: i, K: k, Conv: conv})
			if length[b] == 0 {
				holds[b] = hold{i, k}
			} else {
				holds[b] = hold{}
			}
			length[b] += encLen(cat, i, k)
		case 4, 5:
			if length[b] == 0 {
				continue
			}
			i := 1 + r.Intn(len(cat))
			k := 1 + r.Intn(len(cat[i-1].Vals))
			steps = append(steps, sysStep{Act: "reuse", B: b, Pre: []int{}, I: i, K: k, Conv: "ptr"})
			holds[b] = hold{i, k}
			length[b] = encLen(cat, i, k)
		case 6, 7:
			h := holds[b]
			if h.i == 0 {
				continue
			}
			steps = append(steps, sysStep{Act: "unmarshal", B: b, Pre: []int{}, I: h.i})
		case 8:
			if length[b] == 0 {
				continue
			}
			steps = append(steps, sysStep{Act: "scribble", B: b, Pre: []int{}})
			holds[b] = hold{}
		case 9:
			steps = append(steps, sysStep{Act: "fresh", B: "", Pre: []int{}, I: 1 + r.Intn(len(cat))})
		}
	}
	if err := enc.Encode(M{"ev": "hist", "id": id, "cfg": cfg, "steps": steps}); err != nil {
		panic(err)
	}
}

// overlaps reports whether any memory reachable from v - string bytes, slice backing arrays including
// their spare capacity - overlaps the backing array of buf (including its spare capacity).
func overlaps(v reflect.Value, buf []byte) bool {
	if cap(buf) == 0 {
		return false
	}
	full := buf[:cap(buf)]
	lo := uintptr(unsafe.Pointer(&full[0]))
	hi := lo + uintptr(len(full))
	hit := func(p uintptr, n uintptr) bool { return n > 0 && p < hi && p+n > lo }
	var walk func(v reflect.Value) bool
	walk = func(v reflect.Value) bool {
		switch v.Kind() {
		case reflect.String:
			s := v.String()
			return len(s) > 0 && hit(uintptr(unsafe.Pointer(unsafe.StringData(s))), uintptr(len(s)))
		case reflect.Slice:
			if v.Cap() > 0 && hit(v.Pointer(), uintptr(v.Cap())*v.Type().Elem().Size()) {
				return true
			}
			for i := 0; i < v.Len(); i++ {
				if walk(v.Index(i)) {
					return true
				}
			}
		case reflect.Ptr:
			return !v.IsNil() && walk(v.Elem())
		case reflect.Map:
			it := v.MapRange()
			for it.Next() {
				if walk(it.Key()) || walk(it.Value()) {
					return true
				}
			}
		case reflect.Struct:
			if v.Type() == reflect.TypeOf(time.Time{}) {
				return false
			}
			for i := 0; i < v.NumField(); i++ {
				if walk(v.Field(i)) {
					return true
				}
			}
		case reflect.Interface:
			return !v.IsNil() && walk(v.Elem())
		}
		return false
	}
	return walk(v)
}
