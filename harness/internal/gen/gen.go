// Package gen draws random abstract types and values (seeded, boundary-biased). It knows the
// rules of which type shapes plenc documents as supported (DESIGN.md A.5 MustAccept), not the
// wire format.
package gen

import (
	"fmt"
	"math"
	"math/rand"
	"reflect"
	"time"

	"verifharness/internal/abs"
)

// Pool holds composite types generated earlier in the current session (cases sharing one Plenc
// instance): re-using them in later cases - at the top level, under other tag options, inside other
// containers - is what exercises the instance's codec registry the way a long-lived program does.
var Pool []*abs.TD

func fromPool(r *rand.Rand, o Opts, keyOK bool) *abs.TD {
	if keyOK || len(Pool) == 0 || r.Intn(5) != 0 {
		return nil
	}
	t := Pool[r.Intn(len(Pool))]
	if !Supported(t, o) {
		return nil
	}
	return t
}

// Supported re-checks the documented nesting rules for a type taken from the pool (it may have been
// generated under another configuration).
func Supported(t *abs.TD, o Opts) bool {
	switch t.K {
	case "ptr":
		b := resolve(t.E)
		return b.K != "ptr" && b.K != "map" && b.K != "null" && Supported(t.E, o)
	case "slice":
		e := t.E
		c := class(e, o.Proto)
		if c == "slice" || Base(e).K == "null" {
			return false
		}
		if b := resolve(e); b.K == "ptr" && (c == "fix" || resolve(b.E).K == "slice") {
			return false
		}
		if o.Proto && Base(e).K == "slice" && class(Base(e).E, false) == "len" {
			return false
		}
		return Supported(e, o)
	case "map":
		v := Base(t.Val)
		if v.K == "map" || (o.Proto && v.K == "slice" && class(v.E, false) == "len") {
			return false
		}
		return Supported(t.Val, o)
	case "struct":
		for i := range t.F {
			if !Supported(t.F[i].T, o) || (t.F[i].Opt == "flattime" && !o.BQ) {
				return false
			}
		}
	case "null":
		return o.Null
	}
	return true
}

type Opts struct {
	Null    bool // null.* types registered on the instance
	Named   bool // static named / recursive types
	Options bool // flat / intern / proto tag options
	Proto   bool // instance uses ProtoCompatibleArrays (affects which shapes are representable)
	BQ      bool // BQTimestampCodec registered under the tag flattime
	MaxDepth int
}

var scalarKinds = []string{"bool", "int", "int", "uint", "f32", "f64", "string", "string", "bytes", "time"}
var widths = []int{8, 16, 32, 64}
var nullOf = []string{"int", "bool", "float", "string", "time"}

var namedScalars = []string{"NInt", "NInt64", "NIntG", "NUint", "NStr", "NBool", "NF64", "NF32"}
var namedOther = []string{"NBytes", "NStrs", "NInts", "NMap", "NStruct", "RecS", "RecP", "RecM", "MutA", "MutB", "RecPS"}

func scalar(r *rand.Rand, o Opts, keyOK bool) *abs.TD {
	if o.Named && r.Intn(8) == 0 {
		n := namedScalars[r.Intn(len(namedScalars))]
		if !(keyOK && (n == "NF64" || n == "NF32")) {
			return &abs.TD{K: "ref", N: n}
		}
	}
	if o.Null && !keyOK && r.Intn(8) == 0 {
		return &abs.TD{K: "null", Of: nullOf[r.Intn(len(nullOf))]}
	}
	k := scalarKinds[r.Intn(len(scalarKinds))]
	if keyOK {
		for k == "bytes" || k == "time" || k == "f32" || k == "f64" {
			k = scalarKinds[r.Intn(len(scalarKinds))]
		}
	}
	t := &abs.TD{K: k}
	if k == "int" || k == "uint" {
		t.W = widths[r.Intn(4)]
		if t.W == 64 && r.Intn(2) == 0 {
			t.G = k
		}
	}
	return t
}

// Base follows pointers and refs to the underlying kind.
func Base(t *abs.TD) *abs.TD {
	for {
		switch t.K {
		case "ptr":
			t = t.E
		case "ref":
			t = abs.Env()[t.N]
		default:
			return t
		}
	}
}

func resolve(t *abs.TD) *abs.TD {
	for t.K == "ref" {
		t = abs.Env()[t.N]
	}
	return t
}

// wire class of a type as far as slice nesting rules need it: "var", "fix", "len", "slice"
func class(t *abs.TD, proto bool) string {
	t = resolve(t)
	switch t.K {
	case "bool", "int", "uint", "bqtime":
		return "var"
	case "f32", "f64":
		return "fix"
	case "null":
		switch t.Of {
		case "int", "bool":
			return "var"
		case "float":
			return "fix"
		}
		return "len"
	case "ptr":
		return class(t.E, proto)
	case "slice":
		if class(t.E, proto) == "len" && !proto {
			return "slice"
		}
		return "len"
	case "map", "jsonobj", "jsonarr":
		return "slice"
	}
	return "len"
}

var fieldIdx = []int{0, 1, 2, 3, 15, 16, 17, 63, 64, 127, 128, 300, 2047, 2048, 5000}

// Type draws a supported type. keyOK restricts to comparable scalar / scalar-struct shapes.
func Type(r *rand.Rand, o Opts, depth int, keyOK bool) *abs.TD {
	if depth <= 0 || r.Intn(3) == 0 {
		return scalar(r, o, keyOK)
	}
	if keyOK {
		n := 1 + r.Intn(3)
		t := &abs.TD{K: "struct", F: []abs.FD{}}
		for i := 0; i < n; i++ {
			gn := fmt.Sprintf("K%d", i)
			t.F = append(t.F, abs.FD{I: i + 1, N: gn, GN: gn, Enc: true, T: scalar(r, o, true)})
		}
		return t
	}
	if o.Named && r.Intn(10) == 0 {
		return &abs.TD{K: "ref", N: namedOther[r.Intn(len(namedOther))]}
	}
	if t := fromPool(r, o, keyOK); t != nil {
		return t
	}
	t := typeNew(r, o, depth)
	if (t.K == "slice" || t.K == "map") && len(Pool) < 64 {
		Pool = append(Pool, t)
	}
	return t
}

func typeNew(r *rand.Rand, o Opts, depth int) *abs.TD {
	switch r.Intn(6) {
	case 0:
		for {
			e := Type(r, o, depth-1, false)
			if b := resolve(e); b.K == "ptr" || b.K == "map" || b.K == "null" {
				continue // double presence (**T, *null.X) has no representation in the format
			}
			return &abs.TD{K: "ptr", E: e}
		}
	case 1:
		for {
			e := Type(r, o, depth-1, false)
			c := class(e, o.Proto)
			if c == "slice" {
				continue
			}
			if b := resolve(e); b.K == "ptr" && (c == "fix" || resolve(b.E).K == "slice") {
				continue
			}
			if Base(e).K == "null" {
				continue // slice elements have no presence: null types there are outside the documented scope
			}
			if o.Proto && Base(e).K == "slice" && class(Base(e).E, false) == "len" {
				continue // a repeated slice inside a slice has no framing (unsupported nesting)
			}
			if e.K == "uint" && e.W == 8 {
				return &abs.TD{K: "bytes"} // the unnamed []uint8 IS []byte
			}
			return &abs.TD{K: "slice", E: e}
		}
	case 2:
		for {
			v := Type(r, o, depth-1, false)
			if b := Base(v); b.K == "map" {
				continue
			}
			// documented gap: in ProtoCompatibleArrays mode a map value that is a repeated slice has no framing
			if o.Proto && Base(v).K == "slice" && class(Base(v).E, false) == "len" {
				continue
			}
			return &abs.TD{K: "map", Key: Type(r, o, r.Intn(2), true), Val: v}
		}
	default:
		n := 1 + r.Intn(5)
		t := &abs.TD{K: "struct", F: []abs.FD{}}
		perm := r.Perm(len(fieldIdx))
		for i := 0; i < n; i++ {
			ft := Type(r, o, depth-1, false)
			gn := fmt.Sprintf("F%d", i)
			f := abs.FD{I: fieldIdx[perm[i]], N: gn, GN: gn, Enc: true, T: ft}
			if r.Intn(6) == 0 {
				// json tag forms: the descriptor name is the name part when non-empty, else the Go name
				switch r.Intn(5) {
				case 0:
					f.N = fmt.Sprintf("json_%d", i)
				case 1:
					f.N = fmt.Sprintf("j%d", i)
					f.JT = f.N + ",omitempty"
				case 2:
					f.JT = ",omitempty"
				case 3:
					f.N, f.JT = "-", "-"
				case 4:
					f.N = fmt.Sprintf("na\u00efve %d", i)
				}
			}
			if o.Options {
				b := Base(ft)
				switch {
				case b.K == "int" && r.Intn(3) == 0:
					f.Opt = "flat"
				case (b.K == "string" || (b.K == "null" && b.Of == "string")) && r.Intn(3) == 0:
					f.Opt = "intern"
				case o.BQ && b.K == "time" && r.Intn(3) == 0:
					f.Opt = "flattime"
				case b.K == "slice" && class(b.E, false) == "len" && r.Intn(3) == 0:
					f.Opt = "proto"
				case b.K == "map" && r.Intn(3) == 0 && !(Base(b.Val).K == "slice" && class(Base(b.Val).E, false) == "len" && false):
					f.Opt = "proto"
				}
			}
			if r.Intn(15) == 0 {
				// a field that is not encoded: unexported, or tagged "-"
				f.Enc, f.I, f.Opt = false, 0, ""
				if r.Intn(2) == 0 {
					f.GN = fmt.Sprintf("u%d", i)
					f.N = f.GN
				}
			}
			t.F = append(t.F, f)
		}
		return t
	}
}

var intBound = []int64{0, 1, -1, 63, 64, -64, -65, 127, 128, -128, -129, 8191, 8192, -8192, -8193, 1 << 20, 1<<21 - 1, 1 << 27, 1 << 28, 1<<34 - 1, 1 << 35,
	1 << 41, 1 << 42, 1 << 48, 1 << 49, 1 << 55, 1 << 56, 1 << 62, -(1 << 62), math.MaxInt32, math.MinInt32, math.MaxInt64, math.MinInt64, math.MaxInt16, math.MinInt16}

var floats = []float64{0, math.Copysign(0, -1), 1, -1.5, math.NaN(), math.Inf(1), math.Inf(-1), math.SmallestNonzeroFloat64, math.MaxFloat64, 1234.5678, math.SmallestNonzeroFloat32, math.MaxFloat32}

func randBytes(r *rand.Rand) []byte {
	n := []int{0, 1, 1, 2, 3, 5, 17, 126, 127, 128, 129, 300}[r.Intn(12)]
	if r.Intn(400) == 0 {
		n = 16383 + r.Intn(3)
	}
	b := make([]byte, n)
	switch r.Intn(3) {
	case 0:
		for i := range b {
			b[i] = byte('a' + r.Intn(26))
		}
	default:
		for i := range b {
			b[i] = byte(r.Intn(256))
		}
	}
	return b
}

func randTime(r *rand.Rand) time.Time {
	switch r.Intn(7) {
	case 0:
		return time.Time{}
	case 1:
		return time.Unix(0, 0)
	case 2:
		return time.Unix(-r.Int63n(1e10), r.Int63n(1e9)).In(time.FixedZone("x", 3600))
	case 3:
		return time.Unix(r.Int63n(4e9), 999999999)
	case 4:
		return time.Unix(-1, 0).UTC()
	default:
		return time.Unix(r.Int63n(4e9), r.Int63n(1e9))
	}
}

// Fill stores a random value of abstract type t into v. budget limits the size of recursive values.
func Fill(r *rand.Rand, t *abs.TD, v reflect.Value, budget int) {
	switch t.K {
	case "ref":
		Fill(r, abs.Env()[t.N], v, budget-1)
	case "bool":
		v.SetBool(r.Intn(2) == 0)
	case "int":
		x := intBound[r.Intn(len(intBound))]
		if r.Intn(3) == 0 {
			x = r.Int63() >> uint(r.Intn(63))
			if r.Intn(2) == 0 {
				x = -x
			}
		}
		v.SetInt(reflect.ValueOf(x).Convert(v.Type()).Int())
	case "uint":
		x := uint64(intBound[r.Intn(len(intBound))])
		if r.Intn(3) == 0 {
			x = r.Uint64() >> uint(r.Intn(64))
		}
		v.SetUint(reflect.ValueOf(x).Convert(v.Type()).Uint())
	case "f32", "f64":
		f := floats[r.Intn(len(floats))]
		if r.Intn(4) == 0 {
			f = r.NormFloat64() * 1e6
		}
		v.SetFloat(f)
	case "string":
		v.SetString(string(randBytes(r)))
	case "bytes":
		switch r.Intn(4) {
		case 0:
		case 1:
			v.SetBytes([]byte{})
		default:
			v.SetBytes(randBytes(r))
		}
	case "time", "bqtime":
		v.Set(reflect.ValueOf(randTime(r)))
	case "null":
		valid := r.Intn(3) != 0
		p := v.Field(0) // the embedded sql.NullXxx
		p.Field(1).SetBool(valid)
		if valid || r.Intn(4) == 0 { // sometimes an invalid value with a stale payload
			if r.Intn(3) != 0 {
				switch t.Of {
				case "int":
					Fill(r, &abs.TD{K: "int", W: 64}, p.Field(0), budget)
				case "bool":
					p.Field(0).SetBool(r.Intn(2) == 0)
				case "float":
					Fill(r, &abs.TD{K: "f64"}, p.Field(0), budget)
				case "string":
					Fill(r, &abs.TD{K: "string"}, p.Field(0), budget)
				case "time":
					Fill(r, &abs.TD{K: "time"}, p.Field(0), budget)
				}
			}
		}
	case "ptr":
		if r.Intn(3) != 0 && budget > 0 {
			p := reflect.New(v.Type().Elem())
			if r.Intn(3) != 0 {
				Fill(r, t.E, p.Elem(), budget-1)
			}
			v.Set(p)
		}
	case "slice":
		switch {
		case r.Intn(5) == 0 || budget <= 0:
		case r.Intn(5) == 0:
			v.Set(reflect.MakeSlice(v.Type(), 0, 0))
		default:
			n := 1 + r.Intn(3)
			if r.Intn(25) == 0 {
				n = 127 + r.Intn(3)
			}
			s := reflect.MakeSlice(v.Type(), n, n)
			for i := 0; i < n; i++ {
				if r.Intn(4) != 0 {
					Fill(r, t.E, s.Index(i), budget-1-n/8)
				}
			}
			v.Set(s)
		}
	case "map":
		switch {
		case r.Intn(5) == 0 || budget <= 0:
		case r.Intn(5) == 0:
			v.Set(reflect.MakeMap(v.Type()))
		default:
			m := reflect.MakeMap(v.Type())
			n := 1 + r.Intn(3)
			for i := 0; i < n; i++ {
				k := reflect.New(v.Type().Key()).Elem()
				e := reflect.New(v.Type().Elem()).Elem()
				if r.Intn(4) != 0 {
					Fill(r, t.Key, k, budget-1)
				}
				if k.Type() == reflect.TypeOf(time.Time{}) {
					k.Set(reflect.ValueOf(k.Interface().(time.Time).UTC())) // time keys compare by location too
				}
				if r.Intn(4) != 0 {
					Fill(r, t.Val, e, budget-1)
				}
				m.SetMapIndex(k, e)
			}
			v.Set(m)
		}
	case "struct":
		for i := range t.F {
			if r.Intn(4) != 0 {
				Fill(r, t.F[i].T, abs.Fld(v, i), budget-1)
			}
		}
	case "unsup":
	default:
		panic("Fill kind " + t.K)
	}
}
