package abs

import (
	"reflect"
	"unsafe"
)

var unsafePointerZero unsafe.Pointer

// Named and recursive Go types (universe U3). Their abstract definitions are exported with
// `pvh typesdb` and loaded by the specification as the type environment.
type (
	RecS struct {
		V    int    `plenc:"1"`
		Kids []RecS `plenc:"2"`
	}
	RecP struct {
		V    string `plenc:"1"`
		Next *RecP  `plenc:"2"`
	}
	RecM struct {
		V int             `plenc:"1"`
		M map[string]RecM `plenc:"2"`
	}
	MutA struct {
		B *MutB `plenc:"1"`
		X int   `plenc:"2"`
	}
	MutB struct {
		As []MutA `plenc:"1"`
		S  string `plenc:"3"`
	}
	RecPS struct {
		Kids []*RecPS `plenc:"3"`
		F    float64  `plenc:"1"`
	}
	NInt    int32
	NInt64  int64
	NIntG   int
	NUint   uint16
	NStr    string
	NBool   bool
	NF64    float64
	NF32    float32
	NBytes  []byte
	NStrs   []string
	NInts   []int
	NMap    map[string]int
	NStruct struct {
		A int    `plenc:"1"`
		B string `plenc:"2" json:"bee"`
		c int
		D bool `plenc:"-"`
	}
	NKey struct {
		A int    `plenc:"1"`
		B string `plenc:"2"`
	}
	// RefNode refers to its parent through the tag option rf, for which an instance may register a codec for
	// the struct type RefNode itself (C17: a tagged registration used from inside the very type it is for).
	RefNode struct {
		ID     int32    `plenc:"1"`
		Name   string   `plenc:"2"`
		Parent *RefNode `plenc:"3,rf"`
	}
)

// Recursive definitions that must be rejected (an unsupported field after the recursive one): the
// wrappers built on the way must not stay behind in the registry (C08 / C07, finding F07).
type (
	BadRecS struct {
		Kids []BadRecS `plenc:"1"`
		C    complex64 `plenc:"2"`
	}
	BadRecP struct {
		Next *BadRecP `plenc:"1"`
		F    chan int `plenc:"2"`
	}
	BadRecM struct {
		M map[string]BadRecM `plenc:"1"`
		X int                // no plenc tag
	}
	// ... rejected for a duplicate index, which is only found once all fields have their codecs
	BadRecD struct {
		Kids []BadRecD `plenc:"1"`
		A    int       `plenc:"2"`
		B    string    `plenc:"2"`
	}
	BadRecDP struct {
		A    int       `plenc:"1"`
		Next *BadRecDP `plenc:"3"`
		B    int       `plenc:"1"`
	}
)

// Definitions with embedded fields (reflect.StructOf cannot build an embedded field of an unexported type): an embedded struct is a
// field named after its type, so one whose type name is unexported is skipped like any unexported field, and one whose type name is
// exported needs a tag like any exported field.
type (
	embBase struct {
		X int `plenc:"1"`
	}
	EmbBase struct {
		X int `plenc:"1"`
	}
	EmbLow struct {
		embBase
		Name string `plenc:"1"`
	}
	EmbUp struct {
		EmbBase `plenc:"2"`
		Name    string `plenc:"1"`
	}
	EmbUpNoTag struct {
		EmbBase
		Name string `plenc:"1"`
	}
)

// StaticBad are Go types used by name in "typedef" cases (they cannot be built with reflect.StructOf).
var StaticBad = map[string]reflect.Type{
	"BadRecS": reflect.TypeOf(BadRecS{}), "BadRecP": reflect.TypeOf(BadRecP{}), "BadRecM": reflect.TypeOf(BadRecM{}),
	"BadRecD": reflect.TypeOf(BadRecD{}), "BadRecDP": reflect.TypeOf(BadRecDP{}),
	"EmbLow": reflect.TypeOf(EmbLow{}), "EmbUp": reflect.TypeOf(EmbUp{}), "EmbUpNoTag": reflect.TypeOf(EmbUpNoTag{}),
}

// Marked is the named type for which some instances register a marker codec (C17).
type Marked int32

// Static is the table of named types by name.
var Static = map[string]reflect.Type{}
var staticName = map[reflect.Type]string{}

// StaticNames lists the table in a fixed order.
var StaticNames []string

func reg(name string, v any) {
	rt := reflect.TypeOf(v)
	Static[name] = rt
	staticName[rt] = name
	StaticNames = append(StaticNames, name)
}

func init() {
	reg("RecS", RecS{})
	reg("RecP", RecP{})
	reg("RecM", RecM{})
	reg("MutA", MutA{})
	reg("MutB", MutB{})
	reg("RecPS", RecPS{})
	reg("NInt", NInt(0))
	reg("NInt64", NInt64(0))
	reg("NIntG", NIntG(0))
	reg("NUint", NUint(0))
	reg("NStr", NStr(""))
	reg("NBool", NBool(false))
	reg("NF64", NF64(0))
	reg("NF32", NF32(0))
	reg("NBytes", NBytes(nil))
	reg("NStrs", NStrs(nil))
	reg("NInts", NInts(nil))
	reg("NMap", NMap(nil))
	reg("NStruct", NStruct{})
	reg("NKey", NKey{})
	reg("RefNode", RefNode{})
	_ = NStruct{}.c
}

// Env returns the abstract definitions of the static types.
func Env() map[string]*TD {
	env := map[string]*TD{}
	for _, n := range StaticNames {
		env[n] = AbsOf(Static[n], true)
	}
	return env
}
