// Package abs maps the abstract (JSON) type and value model shared with the TLA+
// specification to real Go types and values and back. It knows nothing about the
// plenc wire format.
package abs

import (
	"encoding/json"
	"fmt"
	"reflect"
	"strconv"
	"strings"
	"time"
	"unicode"
	"unicode/utf8"

	"github.com/unravelin/null"
)

// FD is a struct field of an abstract type.
type FD struct {
	I   int    `json:"i"`   // plenc index (0 when not encoded)
	N   string `json:"n"`   // name the descriptor carries: json name when present, else Go name
	GN  string `json:"gn"`  // Go field name
	Enc bool   `json:"enc"` // encoded at all (exported and not "-")
	Opt string `json:"opt"` // tag option: "", flat, intern, proto, flattime, ...
	Tag string `json:"tag"` // raw struct tag when it must be used verbatim (C08); "" = derive from I/Opt
	Raw bool   `json:"raw,omitempty"` // use Tag verbatim even when it is empty (C08)
	JT  string `json:"jt,omitempty"` // raw json tag value when its form matters (C14), e.g. ",omitempty", "-", "x,omitempty"
	T   *TD    `json:"t"`
}

// TD is an abstract type definition.
type TD struct {
	K    string `json:"k"`
	W    int    `json:"w,omitempty"`
	G    string `json:"g,omitempty"` // Go spelling for int / uint of width 64: "int", "uint"
	Of   string `json:"of,omitempty"`
	E    *TD    `json:"e,omitempty"`
	Key  *TD    `json:"key,omitempty"`
	Val  *TD    `json:"val,omitempty"`
	Name string `json:"name"`
	N    string `json:"n,omitempty"` // ref target
	F    []FD   `json:"f"`
}

var (
	tTime = reflect.TypeOf(time.Time{})
	tAny  = reflect.TypeOf((*any)(nil)).Elem()
)

var intTypes = map[int]reflect.Type{8: reflect.TypeOf(int8(0)), 16: reflect.TypeOf(int16(0)), 32: reflect.TypeOf(int32(0)), 64: reflect.TypeOf(int64(0))}
var uintTypes = map[int]reflect.Type{8: reflect.TypeOf(uint8(0)), 16: reflect.TypeOf(uint16(0)), 32: reflect.TypeOf(uint32(0)), 64: reflect.TypeOf(uint64(0))}

var nullTypes = map[string]reflect.Type{
	"int": reflect.TypeOf(null.Int{}), "bool": reflect.TypeOf(null.Bool{}), "float": reflect.TypeOf(null.Float{}),
	"string": reflect.TypeOf(null.String{}), "time": reflect.TypeOf(null.Time{}),
}

// Unsupported kinds used by the type-validation universe (C08).
var unsupported = map[string]reflect.Type{
	"complex64": reflect.TypeOf(complex64(0)), "complex128": reflect.TypeOf(complex128(0)),
	"array": reflect.TypeOf([2]int{}), "chan": reflect.TypeOf((chan int)(nil)), "func": reflect.TypeOf((func())(nil)),
	"iface": tAny, "uintptr": reflect.TypeOf(uintptr(0)), "unsafeptr": reflect.TypeOf(unsafePointerZero),
}

const pkgPath = "verifharness/internal/abs"

// FieldTag returns the struct tag the field carries.
func (f *FD) FieldTag() string {
	if f.Tag != "" || f.Raw {
		return f.Tag
	}
	if !f.Enc {
		if isExported(f.GN) {
			return `plenc:"-"`
		}
		return ""
	}
	t := fmt.Sprintf(`plenc:"%d`, f.I)
	if f.Opt != "" {
		t += "," + f.Opt
	}
	t += `"`
	if f.JT != "" {
		t += fmt.Sprintf(` json:"%s"`, f.JT)
	} else if f.N != f.GN {
		t += fmt.Sprintf(` json:"%s"`, f.N)
	}
	return t
}

// GoName translates the symbolic field names of the specification (which stays ASCII) to Go identifiers.
func GoName(gn string) string {
	switch {
	case strings.HasPrefix(gn, "NAlower"):
		return "\u00f1" + gn[len("NAlower"):] // ñ...: unexported, not ASCII
	case strings.HasPrefix(gn, "NAupper"):
		return "\u00d1" + gn[len("NAupper"):] // Ñ...: exported, not ASCII
	}
	return gn
}

func isExported(name string) bool {
	r, _ := utf8.DecodeRuneInString(name)
	return !unicode.IsLower(r)
}

// GoType builds the Go type of an abstract type.
func GoType(t *TD) reflect.Type {
	switch t.K {
	case "bool":
		return reflect.TypeOf(false)
	case "int":
		if t.G == "int" {
			return reflect.TypeOf(int(0))
		}
		return intTypes[t.W]
	case "uint":
		if t.G == "uint" {
			return reflect.TypeOf(uint(0))
		}
		return uintTypes[t.W]
	case "marked":
		return reflect.TypeOf(Marked(0))
	case "f32":
		return reflect.TypeOf(float32(0))
	case "f64":
		return reflect.TypeOf(float64(0))
	case "string":
		return reflect.TypeOf("")
	case "bytes":
		return reflect.TypeOf([]byte(nil))
	case "time", "bqtime":
		return tTime
	case "null":
		return nullTypes[t.Of]
	case "jsonobj":
		return reflect.TypeOf(map[string]any(nil))
	case "jsonarr":
		return reflect.TypeOf([]any(nil))
	case "ptr":
		return reflect.PointerTo(GoType(t.E))
	case "slice":
		return reflect.SliceOf(GoType(t.E))
	case "map":
		return reflect.MapOf(GoType(t.Key), GoType(t.Val))
	case "ref":
		rt, ok := Static[t.N]
		if !ok {
			panic("unknown static type " + t.N)
		}
		return rt
	case "struct":
		var fs []reflect.StructField
		for i := range t.F {
			f := &t.F[i]
			sf := reflect.StructField{Name: GoName(f.GN), Type: GoType(f.T), Tag: reflect.StructTag(f.FieldTag())}
			if !isExported(GoName(f.GN)) {
				sf.PkgPath = pkgPath
			}
			fs = append(fs, sf)
		}
		return reflect.StructOf(fs)
	}
	if t.K == "unsup" {
		if rt, ok := unsupported[t.G]; ok {
			return rt
		}
	}
	panic("kind " + t.K)
}

// AbsOf derives the abstract definition of a Go type by reflection (used for the static named
// and recursive types; tag parsing here is independent of plenc's). Named types in the static
// table become refs, except the type itself at the root.
func AbsOf(rt reflect.Type, root bool) *TD {
	if !root {
		if n, ok := staticName[rt]; ok {
			return &TD{K: "ref", N: n}
		}
	}
	switch rt {
	case tTime:
		return &TD{K: "time"}
	case reflect.TypeOf([]byte(nil)):
		return &TD{K: "bytes"}
	}
	for of, nt := range nullTypes {
		if rt == nt {
			return &TD{K: "null", Of: of}
		}
	}
	switch rt.Kind() {
	case reflect.Bool:
		return &TD{K: "bool"}
	case reflect.Int:
		return &TD{K: "int", W: 64, G: "int"}
	case reflect.Int8, reflect.Int16, reflect.Int32, reflect.Int64:
		return &TD{K: "int", W: rt.Bits()}
	case reflect.Uint:
		return &TD{K: "uint", W: 64, G: "uint"}
	case reflect.Uint8, reflect.Uint16, reflect.Uint32, reflect.Uint64:
		return &TD{K: "uint", W: rt.Bits()}
	case reflect.Float32:
		return &TD{K: "f32"}
	case reflect.Float64:
		return &TD{K: "f64"}
	case reflect.String:
		return &TD{K: "string"}
	case reflect.Ptr:
		return &TD{K: "ptr", E: AbsOf(rt.Elem(), false)}
	case reflect.Slice:
		return &TD{K: "slice", E: AbsOf(rt.Elem(), false)}
	case reflect.Map:
		return &TD{K: "map", Key: AbsOf(rt.Key(), false), Val: AbsOf(rt.Elem(), false)}
	case reflect.Struct:
		t := &TD{K: "struct", Name: rt.Name(), F: []FD{}}
		for i := 0; i < rt.NumField(); i++ {
			sf := rt.Field(i)
			f := FD{GN: sf.Name, N: sf.Name, T: AbsOf(sf.Type, false)}
			if jn, _, _ := strings.Cut(sf.Tag.Get("json"), ","); jn != "" {
				f.N = jn
			}
			pt := sf.Tag.Get("plenc")
			if isExported(sf.Name) && pt != "-" && pt != "" {
				idx, opt, _ := strings.Cut(pt, ",")
				n, err := strconv.Atoi(idx)
				if err != nil {
					panic("static type with bad tag: " + pt)
				}
				f.Enc, f.I, f.Opt = true, n, opt
			}
			t.F = append(t.F, f)
		}
		return t
	}
	panic("AbsOf: unsupported " + rt.String())
}

// MarshalJSON writes only the keys that are meaningful for the kind (TLC's Json module has no
// null and every record field the specification reads must exist).
func (t *TD) MarshalJSON() ([]byte, error) {
	m := map[string]any{"k": t.K}
	switch t.K {
	case "int", "uint":
		m["w"] = t.W
		if t.G != "" {
			m["g"] = t.G
		}
	case "unsup":
		m["g"] = t.G
	case "null":
		m["of"] = t.Of
	case "ptr", "slice":
		m["e"] = t.E
	case "map":
		m["key"], m["val"] = t.Key, t.Val
	case "ref":
		m["n"] = t.N
	case "struct":
		m["name"] = t.Name
		fs := t.F
		if fs == nil {
			fs = []FD{}
		}
		m["f"] = fs
	}
	return json.Marshal(m)
}
