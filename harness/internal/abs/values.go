package abs

import (
	"encoding/binary"
	"encoding/json"
	"fmt"
	"math"
	"math/big"
	"reflect"
	"time"
	"unsafe"

	"github.com/unravelin/null"
)

type M = map[string]any

var b128 = big.NewInt(128)

// Limbs is the canonical little-endian base-128 representation of a non-negative number.
func Limbs(u *big.Int) []any {
	out := []any{}
	x := new(big.Int).Set(u)
	for x.Sign() > 0 {
		r := new(big.Int)
		x.DivMod(x, b128, r)
		out = append(out, int(r.Int64()))
	}
	return out
}

func FromLimbs(l []any) *big.Int {
	x := new(big.Int)
	for i := len(l) - 1; i >= 0; i-- {
		x.Mul(x, b128)
		x.Add(x, big.NewInt(int64(num(l[i]))))
	}
	return x
}

func AbsInt(i int64) M {
	b := big.NewInt(i)
	return M{"neg": i < 0, "mag": Limbs(new(big.Int).Abs(b))}
}
func AbsUint(u uint64) M { return M{"neg": false, "mag": Limbs(new(big.Int).SetUint64(u))} }

func Bytes(b []byte) []any {
	out := make([]any, len(b))
	for i, c := range b {
		out[i] = int(c)
	}
	return out
}

func num(x any) int {
	switch v := x.(type) {
	case int:
		return v
	case float64:
		return int(v)
	case json.Number:
		n, _ := v.Int64()
		return int(n)
	}
	panic(fmt.Sprintf("not a number: %T", x))
}

func ToBytes(x any) []byte {
	l, _ := x.([]any)
	out := make([]byte, len(l))
	for i, c := range l {
		out[i] = byte(num(c))
	}
	return out
}

func signed(x any) int64 {
	m := x.(M)
	v := FromLimbs(m["mag"].([]any))
	if m["neg"].(bool) {
		v.Neg(v)
	}
	if !v.IsInt64() {
		if v.IsUint64() {
			return int64(v.Uint64())
		}
		panic("signed value out of range")
	}
	return v.Int64()
}

func unsigned(x any) uint64 {
	m := x.(M)
	v := FromLimbs(m["mag"].([]any))
	if !v.IsUint64() {
		panic("unsigned value out of range")
	}
	return v.Uint64()
}

// Fld gives read/write access to field i of an addressable struct value, exported or not.
func Fld(v reflect.Value, i int) reflect.Value {
	f := v.Field(i)
	if f.CanSet() {
		return f
	}
	return reflect.NewAt(f.Type(), unsafe.Pointer(f.UnsafeAddr())).Elem()
}

func absTime(tm time.Time) M {
	return M{"sec": AbsInt(tm.Unix()), "nsec": tm.Nanosecond()}
}

func toTime(x any) time.Time {
	m := x.(M)
	return time.Unix(signed(m["sec"]), int64(num(m["nsec"])))
}

// ProjectFull is Project plus, for slices, the stale elements between len and cap ("spare"), so that a
// pre-populated decode target can be rebuilt exactly on replay. The specification never reads "spare".
func ProjectFull(t *TD, v reflect.Value) any {
	full = true
	defer func() { full = false }()
	return Project(t, v)
}

var full bool

// Corrupt is set when a projected value contains an impossible slice header (len > cap).
var Corrupt bool

// Project maps a Go value (addressable where it contains unexported fields) to its abstract form.
func Project(t *TD, v reflect.Value) any {
	switch t.K {
	case "bool":
		return v.Bool()
	case "int", "marked":
		return AbsInt(v.Int())
	case "uint":
		return AbsUint(v.Uint())
	case "f32":
		var b [4]byte
		binary.LittleEndian.PutUint32(b[:], math.Float32bits(float32(v.Float())))
		return Bytes(b[:])
	case "f64":
		var b [8]byte
		binary.LittleEndian.PutUint64(b[:], math.Float64bits(v.Float()))
		return Bytes(b[:])
	case "string":
		return Bytes([]byte(v.String()))
	case "bytes":
		return M{"nil": v.IsNil(), "b": Bytes(v.Bytes())}
	case "time", "bqtime":
		return absTime(v.Interface().(time.Time))
	case "null":
		switch n := v.Interface().(type) {
		case null.Int:
			return M{"valid": n.Valid, "v": AbsInt(n.Int64)}
		case null.Bool:
			return M{"valid": n.Valid, "v": n.Bool}
		case null.Float:
			var b [8]byte
			binary.LittleEndian.PutUint64(b[:], math.Float64bits(n.Float64))
			return M{"valid": n.Valid, "v": Bytes(b[:])}
		case null.String:
			return M{"valid": n.Valid, "v": Bytes([]byte(n.String))}
		case null.Time:
			return M{"valid": n.Valid, "v": absTime(n.Time)}
		}
		panic("null type")
	case "ptr":
		if v.IsNil() {
			return M{"nil": true, "v": []any{}}
		}
		return M{"nil": false, "v": Project(t.E, v.Elem())}
	case "slice":
		es := []any{}
		for i := 0; i < v.Len(); i++ {
			es = append(es, Project(t.E, v.Index(i)))
		}
		m := M{"nil": v.IsNil(), "e": es}
		if v.Len() > v.Cap() {
			Corrupt = true // a slice header with len > cap: something wrote outside its backing array
		}
		if full && v.Cap() > v.Len() && v.Cap()-v.Len() <= 16 {
			sp := []any{}
			w := v.Slice(0, v.Cap())
			for i := v.Len(); i < v.Cap(); i++ {
				sp = append(sp, Project(t.E, w.Index(i)))
			}
			m["spare"] = sp
		}
		return m
	case "map":
		ms := []any{}
		it := v.MapRange()
		for it.Next() {
			k := reflect.New(v.Type().Key()).Elem()
			k.Set(it.Key())
			e := reflect.New(v.Type().Elem()).Elem()
			e.Set(it.Value())
			ms = append(ms, []any{Project(t.Key, k), Project(t.Val, e)})
		}
		return M{"nil": v.IsNil(), "m": ms}
	case "struct":
		fs := []any{}
		for i := range t.F {
			fs = append(fs, Project(t.F[i].T, Fld(v, i)))
		}
		return fs
	case "ref":
		return Project(envOf(t.N), v)
	case "jsonobj", "jsonarr":
		return ProjectJSON(v.Interface())
	case "unsup":
		return []any{} // opaque: fields of unsupported kinds are never encoded
	}
	panic("Project kind " + t.K)
}

// ProjectJSON maps a JSON-model Go value (C16) to its abstract form.
func ProjectJSON(x any) any {
	switch v := x.(type) {
	case nil:
		return M{"k": "nil"}
	case string:
		return M{"k": "str", "b": Bytes([]byte(v))}
	case json.Number:
		return M{"k": "num", "b": Bytes([]byte(v))}
	case int:
		return M{"k": "int", "i": AbsInt(int64(v))}
	case float64:
		var b [8]byte
		binary.LittleEndian.PutUint64(b[:], math.Float64bits(v))
		return M{"k": "float", "f": Bytes(b[:])}
	case bool:
		return M{"k": "bool", "v": v}
	case []any:
		es := []any{}
		for _, e := range v {
			es = append(es, ProjectJSON(e))
		}
		return M{"k": "arr", "nil": v == nil, "e": es}
	case map[string]any:
		ms := []any{}
		for k, e := range v {
			ms = append(ms, []any{Bytes([]byte(k)), ProjectJSON(e)})
		}
		return M{"k": "obj", "nil": v == nil, "m": ms}
	}
	return M{"k": "other", "go": fmt.Sprintf("%T", x)}
}

// BuildJSON is the inverse of ProjectJSON.
func BuildJSON(x any) any {
	m := x.(M)
	switch m["k"].(string) {
	case "nil":
		return nil
	case "str":
		return string(ToBytes(m["b"]))
	case "num":
		return json.Number(ToBytes(m["b"]))
	case "int":
		return int(signed(m["i"]))
	case "float":
		return math.Float64frombits(binary.LittleEndian.Uint64(ToBytes(m["f"])))
	case "bool":
		return m["v"].(bool)
	case "arr":
		if m["nil"].(bool) {
			return []any(nil)
		}
		out := []any{}
		for _, e := range m["e"].([]any) {
			out = append(out, BuildJSON(e))
		}
		return out
	case "obj":
		if m["nil"].(bool) {
			return map[string]any(nil)
		}
		out := map[string]any{}
		for _, kv := range m["m"].([]any) {
			p := kv.([]any)
			out[string(ToBytes(p[0]))] = BuildJSON(p[1])
		}
		return out
	}
	panic("BuildJSON")
}

var envCache map[string]*TD

func envOf(n string) *TD {
	if envCache == nil {
		envCache = Env()
	}
	return envCache[n]
}

// Build stores the abstract value x into the addressable Go value v of type t.
func Build(t *TD, x any, v reflect.Value) {
	switch t.K {
	case "bool":
		v.SetBool(x.(bool))
	case "int", "marked":
		v.SetInt(signed(x))
	case "uint":
		v.SetUint(unsigned(x))
	case "f32":
		v.SetFloat(float64(math.Float32frombits(binary.LittleEndian.Uint32(ToBytes(x)))))
		// SetFloat through float64 may quieten a signalling NaN: store the bits directly
		*(*uint32)(unsafe.Pointer(v.UnsafeAddr())) = binary.LittleEndian.Uint32(ToBytes(x))
	case "f64":
		*(*uint64)(unsafe.Pointer(v.UnsafeAddr())) = binary.LittleEndian.Uint64(ToBytes(x))
	case "string":
		v.SetString(string(ToBytes(x)))
	case "bytes":
		m := x.(M)
		if m["nil"].(bool) {
			v.Set(reflect.Zero(v.Type()))
		} else {
			v.SetBytes(append([]byte{}, ToBytes(m["b"])...))
		}
	case "time", "bqtime":
		tm := toTime(x)
		if loc, ok := x.(M)["loc"]; ok && loc == "utc" {
			tm = tm.UTC()
		}
		if tm.Unix() == -62135596800 && tm.Nanosecond() == 0 {
			tm = time.Time{}
		}
		v.Set(reflect.ValueOf(tm))
	case "null":
		m := x.(M)
		valid := m["valid"].(bool)
		switch t.Of {
		case "int":
			var n null.Int
			n.Int64, n.Valid = signed(m["v"]), valid
			v.Set(reflect.ValueOf(n))
		case "bool":
			var n null.Bool
			n.Bool, n.Valid = m["v"].(bool), valid
			v.Set(reflect.ValueOf(n))
		case "float":
			var n null.Float
			n.Float64, n.Valid = math.Float64frombits(binary.LittleEndian.Uint64(ToBytes(m["v"]))), valid
			v.Set(reflect.ValueOf(n))
		case "string":
			var n null.String
			n.String, n.Valid = string(ToBytes(m["v"])), valid
			v.Set(reflect.ValueOf(n))
		case "time":
			var n null.Time
			n.Time, n.Valid = toTime(m["v"]), valid
			v.Set(reflect.ValueOf(n))
		}
	case "ptr":
		m := x.(M)
		if m["nil"].(bool) {
			v.Set(reflect.Zero(v.Type()))
			return
		}
		p := reflect.New(v.Type().Elem())
		Build(t.E, m["v"], p.Elem())
		v.Set(p)
	case "slice":
		m := x.(M)
		if m["nil"].(bool) {
			v.Set(reflect.Zero(v.Type()))
			return
		}
		es := m["e"].([]any)
		spare, _ := m["spare"].([]any)
		s := reflect.MakeSlice(v.Type(), len(es)+len(spare), len(es)+len(spare))
		for i, e := range es {
			Build(t.E, e, s.Index(i))
		}
		for i, e := range spare {
			Build(t.E, e, s.Index(len(es)+i))
		}
		v.Set(s.Slice(0, len(es)))
	case "map":
		m := x.(M)
		if m["nil"].(bool) {
			v.Set(reflect.Zero(v.Type()))
			return
		}
		mv := reflect.MakeMap(v.Type())
		for _, kv := range m["m"].([]any) {
			p := kv.([]any)
			k := reflect.New(v.Type().Key()).Elem()
			e := reflect.New(v.Type().Elem()).Elem()
			Build(t.Key, p[0], k)
			if k.Type() == reflect.TypeOf(time.Time{}) {
				k.Set(reflect.ValueOf(k.Interface().(time.Time).UTC())) // time keys compare by location too: keep them in UTC
			}
			Build(t.Val, p[1], e)
			mv.SetMapIndex(k, e)
		}
		v.Set(mv)
	case "struct":
		xs := x.([]any)
		for i := range t.F {
			Build(t.F[i].T, xs[i], Fld(v, i))
		}
	case "ref":
		Build(envOf(t.N), x, v)
	case "unsup":
	case "jsonobj", "jsonarr":
		j := BuildJSON(x)
		if j == nil {
			v.Set(reflect.Zero(v.Type()))
		} else {
			v.Set(reflect.ValueOf(j))
		}
	default:
		panic("Build kind " + t.K)
	}
}

// ZeroOf is the abstract zero value of t.
func ZeroOf(t *TD) any {
	return Project(t, reflect.New(GoType(t)).Elem())
}
