module verifharness

go 1.21

require (
	github.com/philpearl/plenc v0.0.0
	github.com/unravelin/null v2.1.2+incompatible
)

require (
	github.com/josharian/intern v1.0.0 // indirect
	github.com/mailru/easyjson v0.7.7 // indirect
)

replace github.com/philpearl/plenc => /repo

replace github.com/unravelin/null => github.com/unravelin/null/v4 v4.2.0
